#!/bin/bash
# For every /verif/seeded/<id>: apply patch.diff to a scratch worktree of /repo HEAD, run the quick check of its
# property against it (VERIF_REPO), expect exit 1 with a VIOLATION line.  Prints one line per seeded change.
# ONLY=<regex> restricts the ids.  Run from a snapshot (vp run) or with HERE=/verif; evidence files of the directory it runs in are overwritten.
HERE="${HERE:-$(cd "$(dirname "$0")/.." && pwd)}"
wt=$(mktemp -d /tmp/seedwt-XXXXXX); rmdir "$wt"
git -C /repo worktree add -q --detach "$wt" HEAD || exit 3
trap 'git -C /repo worktree remove --force "$wt"' EXIT
for d in /verif/seeded/*/; do
  id=$(basename "$d"); pid=${id%%-*}
  [ -f "$d/patch.diff" ] || continue
  if [ -n "$ONLY" ] && ! echo "$id" | grep -Eq "$ONLY"; then continue; fi
  if ! git -C "$wt" apply --check "$d/patch.diff" 2>/dev/null; then echo "$id APPLY-FAILED"; continue; fi
  git -C "$wt" apply "$d/patch.diff"
  out=$(VERIF_REPO="$wt" timeout 1500 /venv/bin/python "$HERE/check.py" "$pid" --tier quick 2>&1); rc=$?
  git -C "$wt" checkout -- . ; git -C "$wt" clean -fdq
  n=$(echo "$out" | grep -c "^VIOLATION")
  echo "$id exit=$rc violations=$n $(echo "$out" | grep -m1 "oracle=" | cut -c1-120) $(echo "$out" | grep -m2 "HARNESS" | cut -c1-400 | tr "\n" " ")"
done
