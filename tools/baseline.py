#!/venv/bin/python
"""Run the pinned test suite on /repo and compare with BASELINE.json's stable_pass set."""
import json, subprocess, sys, tempfile, xml.etree.ElementTree as ET
out = tempfile.mktemp(suffix=".xml")
subprocess.run(["/venv/bin/python", "-m", "pytest", "-q", "-p", "no:cacheprovider", "--timeout=900",
                "--continue-on-collection-errors", f"--junitxml={out}"], cwd="/repo",
               stdout=subprocess.DEVNULL, stderr=subprocess.DEVNULL)
passed = set()
for tc in ET.parse(out).getroot().iter("testcase"):
    if not any(c.tag in ("failure", "error", "skipped") for c in tc):
        passed.add(f"{tc.get('classname')}::{tc.get('name')}")
base = set(json.load(open("/root/.vp/BASELINE.json"))["stable_pass"])
missing = sorted(base - passed)
print(f"passed={len(passed)} baseline={len(base)} baseline-tests-not-passing={len(missing)}")
for m in missing[:20]:
    print("  NOT PASSING:", m)
sys.exit(1 if missing else 0)
