#!/bin/bash
# usage: tools/confirm_seeded.sh <dir with patch.diff demo.py> <PID> [check-args...]
# 1. demo passes on pristine /repo copy, fails with patch; 2. pinned suite unchanged with patch; 3. quick check of PID reports a violation.
set -u
dir="$1"; pid="$2"
d=$(mktemp -d /tmp/seed-XXXXXX)
trap 'rm -rf "$d"' EXIT
mkdir -p "$d/clean" "$d/mut"
rsync -a --exclude .git --exclude htmlcov --exclude docs /repo/ "$d/clean/"
rsync -a --exclude .git --exclude htmlcov --exclude docs /repo/ "$d/mut/"
( cd "$d/mut" && patch -p1 -s < "$dir/patch.diff" ) || { echo "RESULT patch-failed"; exit 3; }
( cd "$d/clean" && PYTHONPATH="$d/clean" timeout 300 /venv/bin/python "$dir/demo.py" >/dev/null 2>&1 ); c=$?
( cd "$d/mut" && PYTHONPATH="$d/mut" timeout 300 /venv/bin/python "$dir/demo.py" >/dev/null 2>&1 ); m=$?
echo "demo: pristine exit=$c patched exit=$m"
if [ "${SKIP_SUITE:-0}" != "1" ]; then
( cd "$d/mut" && timeout 1200 /venv/bin/python -m pytest -q -p no:cacheprovider --timeout=900 --continue-on-collection-errors --junitxml="$d/j.xml" >/dev/null 2>&1 )
/venv/bin/python - "$d/j.xml" <<'PY'
import json, sys, xml.etree.ElementTree as ET
passed=set()
for tc in ET.parse(sys.argv[1]).getroot().iter("testcase"):
    if not any(c.tag in ("failure","error","skipped") for c in tc):
        passed.add(f"{tc.get('classname')}::{tc.get('name')}")
base=set(json.load(open("/root/.vp/BASELINE.json"))["stable_pass"])
print(f"suite: passed={len(passed)} baseline-not-passing={len(base-passed)}", sorted(base-passed)[:3])
PY
fi
shift 2
VERIF_REPO="$d/mut" timeout 1500 /venv/bin/python /verif/check.py "$pid" --tier quick "$@" 2>&1 | grep -v "^KNOWN" | cut -c1-260 | tail -6
echo "check exit=${PIPESTATUS[0]}"
