#!/bin/bash
# usage: tools/confirm_seeded.sh <dir with patch.diff demo.py> <PID> <scratch worktree of /repo> [check-args...]
# In the scratch worktree: 1. demo passes pristine, fails with the patch; 2. pinned suite unchanged with the patch;
# 3. quick check of PID (VERIF_REPO=<worktree>) reports a violation.  The worktree is restored afterwards.
set -u
dir="$1"; pid="$2"; wt="$3"; shift 3
[ -z "$(git -C "$wt" status --short)" ] || { echo "RESULT worktree-not-clean"; exit 3; }
( cd "$wt" && PIPEFUNC_TREE="$wt" PYTHONPATH="$wt" timeout 300 /venv/bin/python "$dir/demo.py" >/dev/null 2>&1 ); c=$?
git -C "$wt" apply "$dir/patch.diff" || { echo "RESULT patch-failed"; exit 3; }
trap 'git -C "$wt" checkout -- . ; git -C "$wt" clean -fdq' EXIT
( cd "$wt" && PIPEFUNC_TREE="$wt" PYTHONPATH="$wt" timeout 300 /venv/bin/python "$dir/demo.py" >/dev/null 2>&1 ); m=$?
echo "demo: pristine exit=$c patched exit=$m"
if [ "${SKIP_SUITE:-0}" != "1" ]; then
j=$(mktemp /tmp/junit-XXXXXX.xml)
( cd "$wt" && timeout 1200 /venv/bin/python -m pytest -q -p no:cacheprovider --timeout=900 --continue-on-collection-errors --junitxml="$j" >/dev/null 2>&1 )
/venv/bin/python - "$j" <<'PY'
import json, sys, xml.etree.ElementTree as ET
passed=set()
for tc in ET.parse(sys.argv[1]).getroot().iter("testcase"):
    if not any(c.tag in ("failure","error","skipped") for c in tc):
        passed.add(f"{tc.get('classname')}::{tc.get('name')}")
base=set(json.load(open("/root/.vp/BASELINE.json"))["stable_pass"])
print(f"suite: passed={len(passed)} baseline-not-passing={len(base-passed)}", sorted(base-passed)[:3])
PY
rm -f "$j"
fi
if [ "${SKIP_CHECK:-0}" != "1" ]; then
VERIF_REPO="$wt" timeout 1500 /venv/bin/python /verif/check.py "$pid" --tier quick "$@" 2>&1 | grep -v "^KNOWN" | cut -c1-260 | tail -6
echo "check exit=${PIPESTATUS[0]}"
fi
