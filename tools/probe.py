# usage: VERIF_REPO=<tree> python tools/probe.py <engine module> <PID> <n indices> [n examples]  - counts violation classes over run indices 0..n-1 (in-process, no shrinking)
import sys, time, collections, json, faulthandler; faulthandler.dump_traceback_later(int(__import__("os").environ.get("FH","280")), exit=True)
sys.path.insert(0, __import__('os').path.dirname(__import__('os').path.dirname(__import__('os').path.abspath(__file__))))
from sim.bootstrap import boot; boot()
from sim import runner
import importlib
eng=importlib.import_module(sys.argv[1]); pid=sys.argv[2]
cnt=collections.Counter(); t0=time.time(); ev=0; pr=collections.Counter(); first={}
for idx in range(int(sys.argv[3])):
    with runner.quiet():
        o=runner.run_index(eng,pid,0,idx,'quick')
    if o.get('discarded'): pr['discarded']+=1; continue
    ev+=o['evaluations']; pr.update(o['probes'])
    for v in o['violations']:
        key=(v['oracle'],v['kind'],json.dumps(v.get('signature'),sort_keys=True))
        cnt[key]+=1
        first.setdefault(key,(idx,v))
print(ev, time.time()-t0)
for k,v in cnt.most_common(): print(v,k)
print(dict(pr))
for k,(idx,v) in list(first.items())[:int(sys.argv[4]) if len(sys.argv)>4 else 3]:
    print('=====',k,idx); print(json.dumps(v['detail'],default=repr)[:700]); print(json.dumps(v.get('case',{}).get('config'),default=repr)[:300])
