#!/usr/bin/env python3
"""Regenerate /verif/seeded/README.md from the meta.json files."""
import glob, json, os
rows = []
for d in sorted(glob.glob("/verif/seeded/*/")):
    mp = os.path.join(d, "meta.json")
    if not os.path.exists(mp):
        continue
    m = json.load(open(mp))
    rows.append((os.path.basename(d.rstrip("/")), m.get("property"), m.get("summary", ""), m.get("needs", ""),
                 m.get("detected_by_quick_check"), m.get("detection", "")))
with open("/verif/seeded/README.md", "w") as f:
    f.write("# Seeded changes (written by independent sub-agents from the property text only)\n\n"
            "Each directory holds `patch.diff` (applies to /repo HEAD), `demo.py` (exits 0 on the pristine tree, 1 with the patch; run as `cd <tree> && PIPEFUNC_TREE=<tree> PYTHONPATH=<tree> /venv/bin/python demo.py`) and\n"
            "`meta.json`. Every change was confirmed with `tools/confirm_seeded.sh`: demo passes pristine / fails patched, the pinned\n"
            "suite still has all 492 baseline tests passing, and the quick check of the property was run against the patched tree.\n\n"
            "| id | property | change | needs | caught by quick check | how |\n|---|---|---|---|---|---|\n")
    for r in rows:
        f.write("| " + " | ".join(str(x).replace("|", "/").replace("\n", " ") for x in r) + " |\n")
print(len(rows), "rows")
