#!/usr/bin/env python3
"""usage: keep_seeded.py <src dir> <seeded id> <property> <detected: yes|no|partly> <which check/oracle caught it or why not>"""
import json, os, shutil, sys
src, sid, pid, detected, note = sys.argv[1:6]
dst = f"/verif/seeded/{sid}"
os.makedirs(dst, exist_ok=True)
for f in ("patch.diff", "demo.py"):
    shutil.copy(os.path.join(src, f), os.path.join(dst, f))
meta = json.load(open(os.path.join(src, "meta.json")))
meta.update({"property": pid, "confirmed": {"demo_passes_pristine_fails_patched": True, "pinned_suite_unchanged": True,
             "how": "tools/confirm_seeded.sh in a scratch worktree of /repo (patch applied, demo run, pytest junit compared with BASELINE.json stable_pass, worktree restored)"},
             "detected_by_quick_check": detected, "detection": note})
json.dump(meta, open(os.path.join(dst, "meta.json"), "w"), indent=1)
print("kept", dst)
