# usage: python tools/show_case.py <engine module> <PID> <index>  - prints the generated case and its violations
import sys, json
sys.path.insert(0, __import__('os').path.dirname(__import__('os').path.dirname(__import__('os').path.abspath(__file__))))
from sim.bootstrap import boot; boot()
from sim import runner
import importlib
E=importlib.import_module(sys.argv[1])
with runner.quiet():
    o=runner.run_index(E,sys.argv[2],0,int(sys.argv[3]),'quick')
from sim.genpipe import describe
s=o['sample']
print(json.dumps(s if 'workload' not in s else {k:v for k,v in s.items()}, default=repr)[:3000])
for v in o['violations'][:2]: print(v['oracle'], v['kind'], json.dumps(v['detail'],default=repr)[:1500])
