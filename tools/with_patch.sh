#!/bin/bash
# usage: tools/with_patch.sh <patch.diff> <command...>
# Runs <command> against a scratch copy of /repo with the patch applied (VERIF_REPO), then removes the copy.
set -u
patch="$1"; shift
d=$(mktemp -d /tmp/mut-XXXXXX)
trap 'rm -rf "$d"' EXIT
mkdir -p "$d/repo"
rsync -a --exclude .git --exclude htmlcov --exclude docs --exclude tests /repo/ "$d/repo/"
( cd "$d/repo" && patch -p1 -s < "$patch" ) || { echo "patch failed"; exit 3; }
VERIF_REPO="$d/repo" "$@"
