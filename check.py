#!/venv/bin/python
"""Entry point of the verification machinery (DESIGN section 8).

  check.py <ID> --tier quick|thorough     run the check of one property
  check.py replay <file>                  re-execute a replay file (exit 1 if it reproduces)
  check.py selftest [ID...]               determinism self-test
  check.py setup                          validate the environment
  check.py fidelity [N]                   N workloads on REAL thread/process pools and managers vs reference
  check.py worker ...                     (internal)

Exit codes: 0 held on everything explored (KNOWN-FINDING lines allowed); 1 VIOLATION;
2 harness error / timeout / divergence.
"""
from __future__ import annotations

import json
import os
import shutil
import subprocess
import sys
import tempfile
import time

VERIF = os.path.dirname(os.path.abspath(__file__))
if VERIF not in sys.path:
    sys.path.insert(0, VERIF)

from sim import findings, runner  # noqa: E402

ENV_RULE = (" Every case additionally carries an environment drawn from the same tape (sim/env.py): in 12% of the cases the "
            "directory everything lives in has a name with glob metacharacters, blanks, braces or non-ASCII letters, in 8% "
            "sys.stdout encodes strictly as ascii/latin-1, in 8% open() without encoding= means ascii/latin-1 below the "
            "scratch root (counts: env:* in fault_and_probe_counts).")

BUDGETS = {
    # pid: tier: (total run indices, per-worker wall budget seconds)
    "C03": {"quick": (24000, 55), "thorough": (600000, 900)},
    "C04": {"quick": (16000, 55), "thorough": (300000, 900)},
    "C05": {"quick": (1600, 45), "thorough": (40000, 900)},
    "C06": {"quick": (16000, 55), "thorough": (300000, 900)},
    "C07": {"quick": (200000, 50), "thorough": (1500000, 900)},
    "C09": {"quick": (40000, 55), "thorough": (800000, 900)},
    "C13": {"quick": (6000, 55), "thorough": (150000, 900)},
    "C14": {"quick": (80000, 50), "thorough": (2000000, 900)},
}


def _procs():
    return int(os.environ.get("VERIF_PROCS", min(16, os.cpu_count() or 1)))


def cmd_setup():
    from sim.bootstrap import boot

    pf = boot()
    import hypothesis  # noqa: F401
    import jsonschema  # noqa: F401
    import numpy  # noqa: F401
    from pipefunc.map import storage_registry

    need = {"file_array", "dict", "shared_memory_dict"}
    if not need <= set(storage_registry):
        print("setup: storage registry incomplete", sorted(storage_registry))
        return 2
    json.load(open(os.path.join(VERIF, "MANIFEST.json")))
    print("setup ok: pipefunc from", os.path.dirname(pf.__file__))
    return 0


def cmd_replay(path):
    from sim.bootstrap import boot

    boot()
    rep, out, body = runner.replay_file(path)
    pid = body["property"]
    if rep:
        print(f"REPRODUCED property={pid} oracle={body['expect']['oracle']} kind={body['expect']['kind']} digest={out.get('digest')}")
        print(f"VIOLATION property={pid} replay={path}")
        return 1
    print(f"NOT-REPRODUCED property={pid} expected={body['expect']} got={[runner.vclass(v) for v in out['violations']]} "
          f"digest_mismatch={out.get('digest_mismatch')}")
    return 0


def _fresh_replay(path):
    """Replay in a fresh interpreter; True iff it reproduces exactly."""
    env = dict(os.environ)
    env["PYTHONHASHSEED"] = json.load(open(path)).get("pythonhashseed", "0")
    if env["PYTHONHASHSEED"] == "random":
        env["PYTHONHASHSEED"] = "0"
    p = subprocess.run([sys.executable, os.path.join(VERIF, "check.py"), "replay", path], env=env,
                       capture_output=True, text=True, timeout=600, cwd=VERIF)
    return p.returncode == 1 and "REPRODUCED" in p.stdout, p.stdout[-1500:] + p.stderr[-1500:]


def load_known():
    return findings.load_known()


def match_known(pid, viol, known):
    return findings.match_known(pid, viol["class"], viol.get("signature"), known)


def cmd_check(pid, tier):
    t0 = time.time()
    verif_seed = int(os.environ.get("VERIF_SEED", "0"))
    total, budget = BUDGETS[pid][tier]
    if os.environ.get("VERIF_TOTAL"):
        total = int(os.environ["VERIF_TOTAL"])
    if os.environ.get("VERIF_BUDGET"):
        budget = float(os.environ["VERIF_BUDGET"])
    procs = _procs()
    # pipefunc iterates sets of names in places, so the system's own event order depends on the hash seed:
    # it is part of a run's identity (recorded in replay files); different workers use different values
    hashseeds = [0, 1, 2, 3] if tier == "quick" else [0, 1, 2, 3, 7, 11, 101, 4242]
    scratch = tempfile.mkdtemp(prefix=f"verif-{pid}-")
    exit_code = 0
    import glob

    for old in glob.glob(os.path.join(VERIF, "replays", f"{pid}-*.json")):
        os.unlink(old)
    try:
        # determinism gate: a few seeds twice in fresh interpreters, digests must agree
        gate = determinism_gate(pid, verif_seed, tier, scratch)
        if gate:
            print("HARNESS-ERROR determinism gate:", gate)
            return 2
        ps = runner.spawn_workers(pid, verif_seed, tier, total, procs, budget, hashseeds, scratch)
        results, errors = runner.collect(ps, timeout=budget * 4 + 300)
        for r in results:
            for e in r.get("errors", []):
                errors.append(f"run {e['idx']}: {e['trace']}")
        known = load_known()
        violations, known_hits = [], {}
        for r in results:
            for v in r["violations"]:
                k = match_known(pid, v, known)
                if k is not None:
                    known_hits.setdefault(k["id"], (k, v))
                else:
                    violations.append(v)
        reported = []
        by_class = {}
        for v in violations:
            by_class.setdefault((tuple(v["class"]), json.dumps(v.get("signature"), sort_keys=True)), []).append(v)
        for key in sorted(by_class)[:6]:
            last_tail = ""
            for v in by_class[key][:2]:
                ok, last_tail = _fresh_replay(v["replay"])
                if ok:
                    reported.append(v)
                    break
            else:
                errors.append(f"violation {key[0]} did not replay in a fresh interpreter: "
                              f"{by_class[key][0]['replay']}\n{last_tail}")
        for kid, (k, v) in sorted(known_hits.items()):
            print(f"KNOWN-FINDING: property={pid} {k['what']} [id={kid} replay={v['replay']}]")
        seen = set()
        for v in reported:
            key = (tuple(v["class"]), json.dumps(v.get("signature"), sort_keys=True))
            if key in seen:
                continue
            seen.add(key)
            print(f"VIOLATION property={pid} replay={v['replay']}")
            print(f"  oracle={v['class'][0]} kind={v['class'][1]} detail={json.dumps(v.get('detail'))[:400]}")
        wall = time.time() - t0
        write_evidence(pid, tier, verif_seed, results, reported, known_hits, errors, wall, procs, hashseeds)
        if errors:
            for e in errors[:5]:
                print("HARNESS-ERROR", e[:3000])
            exit_code = 2
        if reported:
            exit_code = 1
        runs = sum(r["runs"] for r in results)
        print(f"{pid} {tier}: runs={runs} violations={len(reported)} known={len(known_hits)} errors={len(errors)} wall={wall:.1f}s")
        return exit_code
    finally:
        shutil.rmtree(scratch, ignore_errors=True)


def determinism_gate(pid, verif_seed, tier, scratch, n=6):
    """Run the first n indices twice in fresh interpreters (different hash seeds for the
    workload part is checked in selftest); event-log digests must be identical."""
    outs = []
    for rep in range(2):
        ps = runner.spawn_workers(pid + "", verif_seed, tier, n, 1, 60, [0], os.path.join(scratch))
        # distinct output names per repetition
        res, errs = runner.collect(ps, timeout=240)
        if errs:
            return "; ".join(errs)[:2000]
        if res[0].get("errors"):
            return res[0]["errors"][0]["trace"]
        outs.append(res[0]["digests"])
    if outs[0] != outs[1]:
        return f"digests differ between two fresh interpreters: {outs[0]} vs {outs[1]}"
    return None


def write_evidence(pid, tier, seed, results, reported, known_hits, errors, wall, procs, hashseeds):
    import collections

    probes = collections.Counter()
    nontrivial = set()
    samples = []
    runs = disc = evals = yields = 0
    sim_time = 0.0
    for r in results:
        probes.update(r["probes"])
        nontrivial.update(r["nontrivial"])
        samples.extend(r["samples"][:1])
        runs += r["runs"]
        disc += r["discarded"]
        evals += r.get("evaluations", r["runs"])
        yields += r["yields"]
        sim_time += r["sim_time"]
    eng = runner.engine(pid)
    ev = {
        "property_id": pid,
        "tier": tier,
        "seed": seed,
        "level": runner.LEVELS[pid],
        "coverage": {
            "evaluations": max(evals, 0),
            "distinct_nontrivial": len(nontrivial),
            "rule": getattr(eng, "RULE", "") + ENV_RULE,
            "samples": samples[:4],
            "simulated_runs": runs,
            "discarded_candidates": disc,
            "runs_per_hour": int(runs / wall * 3600) if wall > 0 else 0,
            "seeds": {"VERIF_SEED": seed, "run_indices": sum(r["runs"] + r["discarded"] for r in results),
                      "pythonhashseeds": hashseeds, "worker_processes": procs},
            "simulated_time_units": sim_time,
            "yield_points": yields,
            "fault_and_probe_counts": dict(sorted(probes.items())),
            "components": getattr(eng, "COMPONENTS", {}),
            "known_findings_hit": sorted(known_hits),
            "harness_errors": len(errors),
            "exhaustive": False,
        },
        "assumptions": getattr(eng, "ASSUMPTIONS", []),
        "wall_s": round(wall, 2),
        "violations": len(reported),
    }
    os.makedirs(os.path.join(VERIF, "evidence"), exist_ok=True)
    path = os.path.join(VERIF, "evidence", f"{pid}.json")
    with open(path, "w") as f:
        json.dump(ev, f, indent=1, default=repr)
    try:
        import jsonschema

        schema = json.load(open("/root/.vp/EVIDENCE.schema.json"))
        jsonschema.validate(json.load(open(path)), schema)
    except FileNotFoundError:
        pass


def main(argv):
    if len(argv) < 2:
        print(__doc__)
        return 2
    cmd = argv[1]
    if cmd == "worker":
        return runner.worker_main(argv[2:])
    if cmd == "setup":
        return cmd_setup()
    if cmd == "replay":
        return cmd_replay(argv[2])
    if cmd == "selftest":
        from sim import selftest

        return selftest.main(argv[2:])
    if cmd == "fidelity":
        from sim import fidelity

        return fidelity.main(argv[2:])
    if cmd in runner.ENGINES:
        tier = os.environ.get("VERIF_TIER", "quick")
        if "--tier" in argv:
            tier = argv[argv.index("--tier") + 1]
        return cmd_check(cmd, tier)
    print("unknown command", cmd)
    return 2


if __name__ == "__main__":
    try:
        rc = main(sys.argv)
    except SystemExit:
        raise
    except BaseException:  # noqa: BLE001 - a harness failure must never look like a verdict
        import traceback

        traceback.print_exc()
        print("HARNESS-ERROR uncaught exception in check.py")
        rc = 2
    sys.exit(rc)
