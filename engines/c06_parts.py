"""C06 — running a map in pieces (fixed_indices, learners) equals running it whole."""
from __future__ import annotations

import collections
import copy
import os
import pickle
import warnings

import numpy as np

from sim import manager as simmanager
from sim.genpipe import all_outputs, build_inputs, build_pipeline, describe, gen_workload, map_kwargs
from sim.kernel import Deadlock, SimCrash, StepCap
from sim.tape import Tape
from sim.userfuncs import canon

from . import c05_crash as c05
from . import common as C

PID = "C06"
RULE = ("family 'parts': random map pipeline with >=1 independent (never reduced) root axis x storage (file_array | dict | "
        "shared_memory_dict, persisted) x partition of 1-2 independent axes into ints/slices (negative steps included) x "
        "tape-chosen order of the parts x sequential|simulated-parallel execution; one map(fixed_indices=part, "
        "cleanup=False) per part in a fresh simulated process each, then a full map(cleanup=False). family 'learners': "
        "create_learners(split_independent_axes on/off, fixed_indices?, return_output on/off) driven by a seeded point "
        "scheduler that interleaves ask/function/tell of all learners whose generation predecessors (per key) are done, "
        "optional cloudpickle round-trip per learner; then a full map(cleanup=False). Parts may run only some outputs "
        "(output_names), one part may be repeated (nothing recomputed, same results returned), the caller's request dicts are "
        "re-used on a longer axis. family 'reject': fixing a reduced axis, an unknown name (made up, or the name of an array / "
        "output / scalar / function, alone or next to a valid axis), an out-of-range index, and reduced-after-add (request "
        "accepted, pipeline grown in place by a reducing function, same request again). distinct_nontrivial = distinct (workload, partition/order or "
        "learner schedule digest) with >=2 parts or >=2 learner points")
COMPONENTS = {
    "real": ["run_map with fixed_indices (_mask_fixed_axes, _existing_and_missing_indices, _validate_fixed_indices)",
             "pipefunc.map.adaptive.create_learners/_sequence/_execute_iteration_*", "adaptive.SequenceLearner ask/tell",
             "storages + run folder on tmpfs"],
    "stub": ["adaptive.Runner / adaptive_scheduler jobs (seeded point scheduler)", "executor pools", "multiprocessing.Manager",
             "process exit between parts"],
    "not_run": ["SLURM submission", "resources_scope='element' splitting"],
}
ASSUMPTIONS = [
    "independent axes are computed from the workload itself: root-input index names that no function consumes with ':' or "
    "without indexing",
    "learner histories use file_array (the only backend whose element writes are durable without an explicit persist)",
]


# ------------------------------------------------------------------ analysis of the workload
def axes_of(w):
    """Axis names of each array as pipefunc can know them: from the MapSpecs only (None = never named)."""
    arrays = {}

    def note(name, axes):
        cur = arrays.setdefault(name, [None] * len(axes))
        for i, a in enumerate(axes):
            if a != ":" and i < len(cur):
                cur[i] = a

    for fd in w["functions"]:
        ms = fd.get("mapspec")
        if not ms:
            continue
        out_axes = [a.strip() for a in ms.split("->")[1].split("]")[0].split("[")[1].split(",")]
        for o in fd["outputs"]:
            note(o, out_axes)
        for name, ax in in_specs(fd).items():
            note(name, ax)
    return {k: tuple(v) for k, v in arrays.items()}


def in_specs(fd):
    specs = {}
    ms = fd.get("mapspec")
    if not ms:
        return specs
    lhs = ms.split("->")[0]
    for part in lhs.split("]"):
        if "[" in part:
            name, ax = part.split("[")
            specs[name.strip(" ,")] = [a.strip() for a in ax.split(",")]
    return specs


def has_unnamed_axis(w):
    return any(a is None for axes in axes_of(w).values() for a in axes)


def independent_axes(w):
    arrays = axes_of(w)
    reduced = set()
    internal = set()
    for fd in w["functions"]:
        specs = in_specs(fd)
        for p in fd["params"]:
            if p in fd.get("bound", {}) or p not in arrays:
                continue
            if p not in specs:
                reduced.update(a for a in arrays[p] if a)
            else:
                for a_arr, a_spec in zip(arrays[p], specs[p]):
                    if a_spec == ":" and a_arr:
                        reduced.add(a_arr)
        if fd.get("out_shape"):
            internal.update(c05_internal_axes(fd))
    root_axes = {a for n, d in w["inputs"].items() if d["kind"] in ("list", "ndarray") and n in arrays for a in arrays[n] if a}
    nonempty = {a for a in root_axes if w["indices"].get(a, 0) > 0}  # an empty axis cannot be partitioned or fixed
    return sorted((root_axes & nonempty) - reduced - internal), sorted(reduced & root_axes)


def _generated_axes_used_downstream(w):
    """Internal (generated) axes of some function's output that another function maps over (never reduced)."""
    out = []
    ind_all, red = independent_axes(w)
    for fd in w["functions"]:
        if not fd.get("out_shape"):
            continue
        for a in c05_internal_axes(fd):
            users = [g for g in w["functions"] if g is not fd and g.get("mapspec") and any(a in spec for spec in in_specs(g).values())]
            if users and a not in red and a not in out:
                out.append(a)
    return out


def _grown_axes(w):
    """Axes that are independent while the last function is not yet part of the pipeline and reduced once it is."""
    if len(w["functions"]) < 2:
        return []
    small = sub_workload(w, [fd["name"] for fd in w["functions"][:-1]])
    if len(small["functions"]) != len(w["functions"]) - 1:
        return []
    ind_small, _ = independent_axes(small)
    _, red = independent_axes(w)
    return [a for a in red if a in ind_small and w["indices"][a] > 0]


def sub_workload(w, fn_names):
    """The part of the workload needed to compute the outputs of the given functions."""
    prod = {o: fd for fd in w["functions"] for o in fd["outputs"]}
    need, stack = set(), list(fn_names)
    while stack:
        f = stack.pop()
        if f in need:
            continue
        need.add(f)
        fd = next(x for x in w["functions"] if x["name"] == f)
        for p_ in fd["params"]:
            if p_ in prod and p_ not in fd.get("bound", {}):
                stack.append(prod[p_]["name"])
    c = copy.deepcopy(w)
    c["functions"] = [fd for fd in c["functions"] if fd["name"] in need]
    C._prune_inputs(c)
    return c


def output_names_arg(w, fn_names):
    out = set()
    for fd in w["functions"]:
        if fd["name"] in fn_names:
            out.add(fd["outputs"][0] if len(fd["outputs"]) == 1 else tuple(fd["outputs"]))
    return out


def c05_internal_axes(fd):
    return C._internal_axes(fd)


# ------------------------------------------------------------------ generation
def gen_partition(tape, n):
    """Partition range(n) into ints / slices (incl. negative steps).  JSON: int or {'slice':[a,b,c]}."""
    idx = tape.shuffle(list(range(n)), "part-shuffle")
    groups = []
    i = 0
    while i < len(idx):
        size = 1 + tape.choose(len(idx) - i, "group-size")
        groups.append(sorted(idx[i:i + size]))
        i += size
    parts = []
    for g in groups:
        if len(g) == 1:
            if tape.coin(0.5, "as-int"):
                parts.append(g[0] - n if tape.coin(0.3, "negative-int") else g[0])  # -1 = last element, ...
            else:
                parts.append({"slice": [g[0], g[0] + 1, None]})
            continue
        step = g[1] - g[0]
        if all(b - a == step for a, b in zip(g, g[1:])):
            if tape.coin(0.3, "negative-step"):
                stop = g[0] - step
                parts.append({"slice": [g[-1], stop if stop >= 0 else None, -step]})
            else:
                parts.append({"slice": [g[0], g[-1] + 1, step]})
        else:
            for x in g:
                parts.append(x)
    return parts


def gen_case(tape, tier):
    fam = tape.pick(["parts", "parts", "learners", "learners", "reject"], "family")
    w = None
    if fam == "reject" and tape.coin(0.06, "no-mapspec-pipeline"):
        from sim.genpipe import gen_dag

        wd = gen_dag(tape)  # a pipeline without any MapSpec: every axis name is unknown to it
        return {"family": "reject", "workload": wd, "fixed": {tape.pick(["i", "zz", sorted(wd["inputs"])[0]], "unknown-name"): 0},
                "kind": "unknown", "via_learners": bool(tape.coin(0.4, "via-learners")),
                "config": {"storage": tape.pick(list(C.STORAGES), "storage")}}
    if fam == "reject" and tape.coin(0.4, "want-grown"):
        for _ in range(12):
            cand = gen_workload(tape, max_funcs=4, min_funcs=2)
            if _grown_axes(cand):
                return {"family": "reject", "workload": cand, "fixed": {tape.pick(_grown_axes(cand), "axis"): 0},
                        "kind": "reduced-after-add", "config": {"storage": tape.pick(list(C.STORAGES), "storage")}}
    for _ in range(8):
        cand = gen_workload(tape, max_funcs=4, allow_nomap=fam != "parts" or True)
        ind, red = independent_axes(cand)
        if ind:
            w = cand
            break
    if w is None:
        return None
    ind, red = independent_axes(w)
    if fam == "reject":
        red = [a for a in red if w["indices"][a] > 0]  # on an empty axis index 0 is also out of range (IndexError is right)
        grown = _grown_axes(w)
        gen_axes = _generated_axes_used_downstream(w)
        kind = tape.pick(["unknown", "range"] + (["reduced"] if red else []) + (["reduced-after-add"] * 2 if grown else [])
                         + (["range-generated"] * 2 if gen_axes else []), "reject-kind")
        if kind == "unknown":
            # a name that is not an axis: made up, or the name of something else the pipeline knows (an array, an
            # output, a scalar input, a function), alone or next to a valid axis
            names = ["zz"] + sorted(w["inputs"]) + all_outputs(w) + [fd["name"] for fd in w["functions"]]
            names = [n for n in names if n not in w["indices"]]
            fixed = {tape.pick(names, "unknown-name"): 0}
            if tape.coin(0.3, "with-valid-axis"):
                fixed[tape.pick(ind, "axis")] = 0
        elif kind == "reduced-after-add":
            fixed = {tape.pick(grown, "axis"): 0}
        elif kind == "range-generated":
            # an axis that a function generates (no input carries it) and a later function maps over: out of range there
            a = tape.pick(gen_axes, "axis")
            fixed = {a: w["indices"][a] + tape.choose(3, "over")}
            if tape.coin(0.6, "fix-all-axes-of-a-user"):
                # ... together with (valid) ints for every other axis of one function that maps over it
                users = [g for g in w["functions"] if g.get("mapspec") and any(a in spec for spec in in_specs(g).values())]
                g = tape.pick(users, "user")
                for spec in in_specs(g).values():
                    for b in spec:
                        if b not in (":", a) and b not in fixed and w["indices"].get(b, 0) > 0:
                            fixed[b] = 0
        elif kind == "range":
            a = tape.pick(ind, "axis")
            fixed = {a: w["indices"][a] + tape.choose(2, "over")}
        else:
            fixed = {tape.pick(red, "axis"): 0}
        return {"family": "reject", "workload": w, "fixed": fixed, "kind": kind, "via_learners": bool(tape.coin(0.4, "via-learners")),
                "config": {"storage": tape.pick(list(C.STORAGES), "storage")}}
    if fam == "parts":
        output_fns = None
        if len(w["functions"]) > 1 and tape.coin(0.25, "output-names"):
            # run only some outputs (output_names=): requests are then judged against the sub-pipeline that runs
            fns = [tape.pick([fd["name"] for fd in w["functions"]], "out-fn")]
            w_sub = sub_workload(w, fns)
            ind_sub, _r = independent_axes(w_sub)
            if ind_sub and len(w_sub["functions"]) < len(w["functions"]):
                output_fns, ind = fns, ind_sub
                for d in w["inputs"].values():  # with output_names every root argument must be passed explicitly
                    if d["kind"] == "default":
                        d["provided"] = True
        axes = [tape.pick(ind, "axis")]
        if len(ind) > 1 and tape.coin(0.4, "two-axes"):
            other = tape.pick([a for a in ind if a != axes[0]], "axis2")
            axes.append(other)
        per_axis = {a: gen_partition(tape, w["indices"][a]) for a in axes}
        parts = [{}]
        for a in axes:
            parts = [dict(p, **{a: x}) for p in parts for x in per_axis[a]]
        parts = tape.shuffle(parts, "part-order")[:8]
        n_real_parts = len(parts)
        if tape.coin(0.2, "empty-part"):
            # a part that selects nothing (a worker that got an empty chunk): slice(0, 0), slice(None, 0), slice(n, n)
            a = tape.pick(axes, "empty-axis")
            n_a = w["indices"][a]
            empty = tape.pick([[0, 0, None], [None, 0, None], [n_a, n_a, None], [1, 1, None]], "empty-slice")
            parts.insert(tape.choose(len(parts) + 1, "empty-pos"), {a: {"slice": empty}})
        ex = tape.pick(["sequential", "sequential", "single"], "exec")
        executor = {"kind": "sequential"}
        if ex == "single":
            executor = {"kind": "single", "ex": {"mode": tape.pick(["thread", "process"], "mode"),
                                                 "workers": 1 + tape.choose(3, "workers"), "start": tape.pick(["fifo", "any"], "start"),
                                                 "pickle_at": "submit"}}
        case = {"family": "parts", "workload": w, "parts": parts, "complete": n_real_parts == _n_parts(per_axis),
                "config": {"storage": C.gen_storage(tape, w), "executor": executor, "preempt": tape.pick([0.1, 0.5], "preempt"),
                           "show_progress": bool(tape.coin(0.15, "show-progress"))}}
        if output_fns:
            case["output_fns"] = output_fns
        if tape.coin(0.3, "repeat-part"):
            case["repeat_part"] = tape.choose(len(parts), "which-part")
        if executor["kind"] == "sequential" and tape.coin(0.25, "cached-pipeline"):
            # every function is cached (each part uses a new Pipeline object with a cold cache); the object that ran the
            # last part then runs the whole job once more into a fresh folder: a result cache must never stand in for storing
            case["cache_type"] = tape.pick(["simple", "lru"], "cache-type")
        if not output_fns and any(isinstance(v, int) and v < 0 for p_ in parts for v in p_.values()) and tape.coin(0.5, "reuse"):
            # the caller keeps its request objects and uses the very same dicts again on a data set whose
            # partitioned axes are one longer: -1 must then mean the new last element
            case["reuse_on_longer"] = True
        if tape.coin(0.25, "dying-part"):
            # the process that runs one of the parts dies at a file-system event; the same request is then made again by a
            # fresh process (what a scheduler does with a failed job) before the remaining parts run
            case["dying_part"] = {"index": tape.choose(len(parts), "which-part"), "at": 2 + tape.choose(40, "crash-at")}
        return case
    # with split_independent_axes pipefunc chooses the axes itself; it is asked for only where no root axis is
    # reduced anywhere, so that a refusal cannot be a legitimate "reduced axis" rejection
    split = bool(tape.coin(0.5, "split")) and not red
    fixed = None
    if not split and tape.coin(0.3, "learner-fixed"):
        a = tape.pick(ind, "axis")
        fixed = {a: tape.pick(gen_partition(tape, w["indices"][a]), "fixed-part")}
    case = {"family": "learners", "workload": w, "split": split, "fixed": fixed,
            "return_output": bool(tape.coin(0.5, "return-output")), "pickle_learners": bool(tape.coin(0.3, "pickle")),
            "config": {"storage": "file_array"}}
    if tape.coin(0.25, "learner-crash"):
        case["learner_crash"] = 3 + tape.choose(40, "crash-at")
    elif tape.coin(0.2, "earlier-session"):
        case["earlier_session"] = True  # the same process drove learners on this folder before, with other inputs
    mapped = [fd for fd in w["functions"] if fd.get("mapspec")]
    if "learner_crash" not in case and not case["pickle_learners"] and mapped and tape.coin(0.3, "memory-storage"):
        # some (or all) mapped outputs are kept in the process's memory; learners and final run then share one process
        if tape.coin(0.3, "all-memory"):
            case["config"]["storage"] = "dict"
        else:
            some = [fd for fd in mapped if tape.coin(0.5, "in-memory")] or mapped[:1]
            case["config"]["storage"] = dict({",".join(fd["outputs"]): "dict" for fd in some}, **{"": "file_array"})
    return case


def _n_parts(per_axis):
    n = 1
    for v in per_axis.values():
        n *= len(v)
    return n


def simplify(case):
    if case["family"] == "parts" and len(case["parts"]) > 1:
        for i in range(len(case["parts"])):
            c = copy.deepcopy(case)
            del c["parts"][i]
            c["complete"] = False
            rp = c.get("repeat_part")
            if rp is not None:
                if rp == i:
                    del c["repeat_part"]
                elif rp > i:
                    c["repeat_part"] = rp - 1
            dp = c.get("dying_part")
            if dp is not None:
                if dp["index"] == i:
                    del c["dying_part"]
                elif dp["index"] > i:
                    dp["index"] -= 1
            yield c
    if case["family"] == "parts":
        if case.get("repeat_part") is not None:
            c = copy.deepcopy(case)
            del c["repeat_part"]
            yield c
        if case.get("dying_part") is not None:
            c = copy.deepcopy(case)
            del c["dying_part"]
            yield c
        if case.get("cache_type"):
            c = copy.deepcopy(case)
            del c["cache_type"]
            yield c
        if isinstance(case["config"]["storage"], dict):
            for s in sorted(set(case["config"]["storage"].values())):
                c = copy.deepcopy(case)
                c["config"]["storage"] = s
                yield c
        if case["config"]["executor"]["kind"] != "sequential":
            c = copy.deepcopy(case)
            c["config"]["executor"] = {"kind": "sequential"}
            yield c
    if case["family"] == "learners":
        if case.get("learner_crash") is not None:
            c = copy.deepcopy(case)
            del c["learner_crash"]
            yield c
        for k in ("pickle_learners", "return_output", "split"):
            if case.get(k):
                c = copy.deepcopy(case)
                c[k] = False
                yield c
    w = case["workload"]
    if len(w["functions"]) > 1:
        used = {p for fd in w["functions"] for p in fd["params"]}
        for i in range(len(w["functions"]) - 1, -1, -1):
            if any(o in used for o in w["functions"][i]["outputs"]):
                continue
            c = copy.deepcopy(case)
            del c["workload"]["functions"][i]
            C._prune_inputs(c["workload"])
            if isinstance(c["config"].get("storage"), dict):
                c["config"]["storage"] = next(iter(c["config"]["storage"].values()))
            fixed_axes = set()
            for p in c.get("parts", []):
                fixed_axes |= set(p)
            if c.get("fixed"):
                fixed_axes |= set(c["fixed"])
            ind, _ = independent_axes(c["workload"])
            if fixed_axes <= set(ind) or case["family"] == "reject":
                yield c


def _fx(part):
    return {a: (slice(*v["slice"]) if isinstance(v, dict) else v) for a, v in part.items()}


def selected(part, axes, ext_index, sizes):
    """Does a fixed_indices part select the external index of an output with these axes?"""
    for a, v in part.items():
        if a not in axes:
            continue
        coord = ext_index[axes.index(a)]
        if isinstance(v, dict):
            if coord not in range(*slice(*v["slice"]).indices(sizes[a])):
                return False
        elif coord != (v if v >= 0 else v + sizes[a]):
            return False
    return True


def _frame(e):
    tb = e.__traceback__
    frame = None
    while tb is not None:
        fn = tb.tb_frame.f_code.co_filename
        if "/pipefunc/" in fn:
            frame = f"{fn.split('/pipefunc/')[-1]}:{tb.tb_frame.f_code.co_name}"
        tb = tb.tb_next
    return frame


# ------------------------------------------------------------------ execution
def run_case(case, exec_seed=None, exec_tape=None):
    C.begin_case()
    tape = Tape(exec_seed) if exec_tape is None else Tape(recorded=exec_tape)
    w = case["workload"]
    out = {"violations": [], "probes": {}, "nontrivial": [], "evaluations": 1, "yields": 0, "sim_time": 0.0}
    viol, probes = out["violations"], out["probes"]
    fam = case["family"]

    def V(oracle, kind, detail=None, sig=None):
        viol.append({"property": PID, "oracle": oracle, "kind": kind, "detail": detail,
                     "signature": dict({"family": fam, "unnamed_axis": has_unnamed_axis(w)}, **(sig or {}))})

    w_full = w
    if case.get("output_fns"):
        w = sub_workload(w_full, case["output_fns"])  # oracles are about the sub-pipeline that actually runs
        probes["output_names"] = 1
        try:
            with C.new_sim(Tape(recorded=[]), preempt=0.0):
                # the tree refuses to construct some valid (sub-)pipelines (C01's business): not a C06 question
                sub = build_pipeline(w_full).subpipeline(set(build_inputs(w)), output_names_arg(w_full, case["output_fns"]))
                got = {n for f in sub.functions for n in ([f.output_name] if isinstance(f.output_name, str) else f.output_name)}
                if got != set(all_outputs(w)):
                    # ... and silently drops functions whose root arguments all come from defaults (noted in DESIGN 11)
                    raise ValueError("sub-pipeline incomplete")
        except Exception:  # noqa: BLE001
            out["discarded"] = True
            out["exec_tape"] = []
            return out
    ref = c05.reference(w)
    if ref.error is not None:
        out["discarded"] = True
        out["exec_tape"] = []
        return out
    C.report_mismatch(ref, V)
    digests = []
    with C.Scratch() as root, warnings.catch_warnings():
        warnings.simplefilter("ignore")
        folder = os.path.join(root, "run")

        def process(fn, preempt=0.0):
            sim = C.new_sim(tape, root, preempt=preempt, step_cap=C.step_cap_for(w))
            box = {}

            def main():
                box["r"] = fn(sim)

            err = None
            with sim:
                try:
                    sim.kernel.run(main)
                except (Deadlock, StepCap) as e:
                    V("liveness", type(e).__name__, str(e))
                except SimCrash as e:
                    err = e  # the simulated process died where the caller asked it to
                except Exception as e:  # noqa: BLE001
                    err = e
                finally:
                    C.restore_default_pool(sim)
            simmanager.shutdown_all(sim)
            out["yields"] += sim.kernel.steps
            digests.append(sim.kernel.digest())
            return box.get("r"), err, sim

        if fam == "reject" and case["kind"] == "reduced-after-add":
            (axis, _i), = case["fixed"].items()
            if axis not in _grown_axes(w):
                out["discarded"] = True
                out["exec_tape"] = []
                return out
            small = sub_workload(w, [fd["name"] for fd in w["functions"][:-1]])
            state = {}

            def go(sim):
                # the request is fine while the reducing function is not there ...
                p = build_pipeline(small)
                p.map(build_inputs(small), run_folder=folder + "-before", parallel=False, storage=case["config"]["storage"],
                      fixed_indices=_fx(case["fixed"]), cleanup=False, **map_kwargs(small))
                state["calls_before"] = len(sim.calls)
                # ... the pipeline then grows in place by a function that reduces the axis: the same request must be refused
                p.add(build_pipeline(w).functions[-1])
                return p.map(build_inputs(w), run_folder=folder, parallel=False, storage=case["config"]["storage"],
                             fixed_indices=_fx(case["fixed"]), cleanup=False, **map_kwargs(w))

            _r, err, sim = process(go)
            if "calls_before" not in state:
                out["discarded"] = True  # the smaller pipeline refused the request: nothing to learn here
                out["exec_tape"] = []
                return out
            if err is None:
                V("reject", "reduced-after-add-accepted", {"fixed": case["fixed"], "added": w["functions"][-1]["name"]})
            elif not isinstance(err, ValueError):
                V("reject", f"reduced-after-add-raised-{type(err).__name__}", {"fixed": case["fixed"], "exc": repr(err)[:300]}, {"frame": _frame(err)})
            elif len(sim.calls) > state["calls_before"]:
                V("reject", "user-code-ran-before-rejection", {"fixed": case["fixed"], "calls": len(sim.calls) - state["calls_before"]})
            probes["reject:reduced-after-add"] = 1
        elif fam == "reject":
            via_learners = bool(case.get("via_learners"))

            def go(sim):
                p = build_pipeline(w)
                if via_learners:
                    # the same request through create_learners: refused at creation or when the learners are driven
                    from pipefunc.map.adaptive import create_learners

                    ld = create_learners(p, build_inputs(w), folder, internal_shapes=map_kwargs(w).get("internal_shapes"),
                                         storage=case["config"]["storage"], fixed_indices=_fx(case["fixed"]))
                    for gens in ld.values():
                        for gen in gens:
                            for lp in gen:
                                while not lp.learner.done():
                                    pts, _ = lp.learner.ask(1)
                                    for pt in pts:
                                        lp.learner.tell(pt, lp.learner.function(pt))
                    return ld
                return p.map(build_inputs(w), run_folder=folder, parallel=False, storage=case["config"]["storage"],
                             fixed_indices=_fx(case["fixed"]), cleanup=False, **map_kwargs(w))

            _r, err, sim = process(go)
            # (a generated axis may also be reduced somewhere: either refusal is a refusal)
            exp = IndexError if case["kind"] == "range" else ((IndexError, ValueError) if case["kind"] == "range-generated" else ValueError)
            if err is None:
                V("reject", f"{case['kind']}-accepted", {"fixed": case["fixed"], "via_learners": via_learners})
            elif not isinstance(err, exp):
                V("reject", f"{case['kind']}-raised-{type(err).__name__}", {"fixed": case["fixed"], "exc": repr(err)[:300]},
                  {"frame": _frame(err)})
            elif sim.calls and case["kind"] != "range-generated":
                # (the length of a generated axis is only enforced where the selection is built: upstream functions that do
                # not carry the axis may legitimately have run by then)
                V("reject", "user-code-ran-before-rejection", {"fixed": case["fixed"], "calls": len(sim.calls)})
            probes[f"reject:{case['kind']}"] = 1
        elif fam == "parts":
            _run_parts(case, w, ref, folder, process, V, probes, w_full)
        else:
            _run_learners(case, w, ref, folder, process, V, probes, tape)
    probes[f"family:{fam}"] = 1
    out["exec_tape"] = tape.recorded()
    out["digest"] = C.digest_of(digests)
    if probes.get("parts_run", 0) >= 2 or probes.get("learner_points", 0) >= 2:
        out["nontrivial"] = [C.digest_of([describe(w), case.get("parts"), case.get("split"), out["digest"]])]
    out["sample"] = {k: (describe(v) if k == "workload" else v) for k, v in case.items()}
    return out


def _masks_expected(w, parts_done):
    """Per output: set of external indices that must be present after the given parts."""
    arrays = axes_of(w)
    exp = {}
    for fd in w["functions"]:
        ms = fd.get("mapspec")
        if not ms or ms.strip().startswith("..."):
            continue
        internal = set(C._internal_axes(fd))
        for o in fd["outputs"]:
            axes = [a for a in arrays[o] if a not in internal]
            shape = tuple(w["indices"][a] for a in axes)
            sel = set()
            for e in np.ndindex(*shape):
                if any(selected(p, axes, e, w["indices"]) for p in parts_done):
                    sel.add(tuple(int(x) for x in e))
            exp[o] = (shape, sel)
    return exp


def _run_parts(case, w, ref, folder, process, V, probes, w_full=None):
    from pipefunc.map import load_outputs
    from pipefunc.map._storage_array._base import StorageBase

    cfg = case["config"]
    w_full = w_full or w
    extra = {"output_names": output_names_arg(w_full, case["output_fns"])} if case.get("output_fns") else {}
    storage = C.storage_arg(cfg["storage"])
    if extra and isinstance(storage, dict):
        storage = next(iter(storage.values()))  # per-output storage dicts are keyed by outputs that may not run
    seen_calls = collections.Counter()
    done = []
    last_pipeline = [None]
    requests = [_fx(part) for part in case["parts"]]  # the caller's own request objects
    for pi, part in enumerate(case["parts"]):
        def go(sim, part=part, pi=pi, crash_at=None):
            if crash_at is not None:
                sim.fs.crash_at = sim.fs.n + crash_at
            if case.get("cache_type"):
                # a process-local cache: the object outlives the simulated process that created it (a shared one would
                # hold proxies of that process's manager)
                p = build_pipeline(w_full, cached={fd["name"] for fd in w_full["functions"]}, cache_type=case["cache_type"],
                                   cache_kwargs=None if case["cache_type"] == "simple" else {"shared": False})
                last_pipeline[0] = p
            else:
                p = build_pipeline(w_full)
            executor, parallel = C.make_executor(sim, cfg["executor"])
            res = p.map(build_inputs(w), run_folder=folder, parallel=parallel, executor=executor,
                        storage=storage, fixed_indices=requests[pi], cleanup=False, persist_memory=True,
                        show_progress=bool(cfg.get("show_progress")), **map_kwargs(w), **extra)
            masks = {}
            for o in all_outputs(w):
                st = res[o].store
                if isinstance(st, StorageBase):
                    masks[o] = np.asarray(np.ma.getdata(st.mask)).astype(bool)
            return masks, {o: canon(res[o].output) for o in all_outputs(w) if o in res}

        dying = case.get("dying_part")
        if dying and dying["index"] == pi:
            _r, err0, _sim0 = process(lambda s_: go(s_, crash_at=dying["at"]), preempt=cfg["preempt"])
            if isinstance(err0, SimCrash):
                probes["part_process_died"] = 1  # (what that attempt computed is not held against the attempt that follows)
            elif err0 is not None:
                V("parts", f"part-raised:{type(err0).__name__}", {"part": part, "index": pi, "exc": repr(err0)[:300]}, {"frame": _frame(err0)})
                return
        got_go, err, sim = process(go, preempt=cfg["preempt"])
        if err is not None:
            V("parts", f"part-raised:{type(err).__name__}", {"part": part, "index": pi, "exc": repr(err)[:300]}, {"frame": _frame(err)})
            return
        masks, outs = got_go
        if case.get("repeat_part") == pi:
            # the same request once more: everything selected is stored already, so nothing is computed and the
            # returned results are the ones the first execution of this part returned
            again, err, sim2 = process(go, preempt=cfg["preempt"])
            probes["part_repeated"] = 1
            if err is not None:
                V("parts", f"repeated-part-raised:{type(err).__name__}", {"part": part, "exc": repr(err)[:300]}, {"frame": _frame(err)})
                return
            if sim2.calls:
                V("parts", "repeated-part-recomputed", {"part": part, "calls": [repr(c) for c in sim2.calls][:3]})
                return
            if again[1] != outs:
                bad = next(o for o in outs if again[1].get(o) != outs[o])
                V("parts", "repeated-part-returned-other-results", {"part": part, "output": bad, "first": repr(outs[bad])[:300],
                                                                   "repeated": repr(again[1].get(bad))[:300]})
                return
        done.append(part)
        probes["parts_run"] = probes.get("parts_run", 0) + 1
        exp = _masks_expected(w, done)
        for o, (shape, sel) in exp.items():
            if o not in masks:
                continue
            if tuple(np.shape(masks[o])) != tuple(shape):
                V("parts", "store-has-another-shape", {"part": part, "output": o, "store": list(np.shape(masks[o])), "workload": list(shape)})
                return
            got = {tuple(int(x) for x in e) for e in np.ndindex(*shape) if not masks[o][e]}
            if got != sel:
                V("parts", "stored-elements-differ-from-selection", {"part": part, "output": o, "present": sorted(got)[:10],
                                                                    "expected": sorted(sel)[:10]})
                return
        # call log of this part: no element twice over the whole history, nothing outside the selection
        for c in sim.calls:
            seen_calls[c.key()] += 1
            if seen_calls[c.key()] > max(1, ref.C0.get(c.key(), 0)):
                V("parts", "element-computed-twice", {"part": part, "call": repr(c)})
                return
            if c.key() not in ref.C0:
                V("parts", "call-not-in-whole-run", {"part": part, "call": repr(c)})
                return
    # final full run recomputes nothing (when the parts were a complete partition) and returns R0
    def final(sim):
        p = build_pipeline(w_full)
        res = p.map(build_inputs(w), run_folder=folder, parallel=False, storage=storage, cleanup=False,
                    persist_memory=True, **map_kwargs(w), **extra)
        return {o: canon(res[o].output) for o in all_outputs(w)}

    R, err, sim = process(final)
    if err is not None:
        V("parts", f"final-run-raised:{type(err).__name__}", {"exc": repr(err)[:300]}, {"frame": _frame(err)})
        return
    if case["complete"] and sim.calls:
        V("parts", "final-run-recomputed", {"calls": [repr(c) for c in sim.calls][:4]})
        return
    for c in sim.calls:
        seen_calls[c.key()] += 1
        if seen_calls[c.key()] > max(1, ref.C0.get(c.key(), 0)):
            V("parts", "element-computed-twice", {"part": "final", "call": repr(c)})
            return
    if R != ref.R0:
        bad = next(o for o in R if R[o] != ref.R0[o])
        V("parts", "final-result-differs", {"output": bad, "got": repr(R[bad])[:300], "ref": repr(ref.R0[bad])[:300]})
        return

    def loads(sim):
        return {o: canon(load_outputs(o, run_folder=folder)) for o in all_outputs(w)}

    L, err, _ = process(loads)
    if err is not None:
        V("parts", f"load-raised:{type(err).__name__}", {"exc": repr(err)[:300]}, {"frame": _frame(err)})
    elif L != ref.R0:
        bad = next(o for o in L if L[o] != ref.R0[o])
        V("parts", "stored-data-differs-from-whole-run", {"output": bad, "got": repr(L[bad])[:300], "ref": repr(ref.R0[bad])[:300]})
    if sum(seen_calls.values()) == sum(ref.C0.values()):
        probes["all_elements_exactly_once"] = 1
    if last_pipeline[0] is not None and not extra:
        folder2 = folder + "-again"

        def again(sim):
            res = last_pipeline[0].map(build_inputs(w), run_folder=folder2, parallel=False, storage=storage,
                                       persist_memory=True, **map_kwargs(w))
            return {o: canon(res[o].output) for o in all_outputs(w)}, {o: canon(load_outputs(o, run_folder=folder2)) for o in all_outputs(w)}

        got2, err, _sim2 = process(again)
        probes["cached_pipeline_object_runs_again_in_fresh_folder"] = 1
        if err is not None:
            V("parts", f"second-folder-run-raised:{type(err).__name__}", {"exc": repr(err)[:300]}, {"frame": _frame(err)})
        elif got2[0] != ref.R0 or got2[1] != ref.R0:
            which = 0 if got2[0] != ref.R0 else 1
            bad = next(o for o in ref.R0 if got2[which][o] != ref.R0[o])
            V("parts", "second-folder-run-differs:" + ("result" if which == 0 else "stored"),
              {"output": bad, "got": repr(got2[which][bad])[:300], "ref": repr(ref.R0[bad])[:300]})
    if case.get("reuse_on_longer") and not extra:
        _reuse_requests(case, w, requests, folder + "-longer", process, V, probes, storage, cfg)


def _reuse_requests(case, w, requests, folder2, process, V, probes, storage, cfg):
    """Second use of the same request dicts on a data set whose partitioned axes are one element longer."""
    from pipefunc.map._storage_array._base import StorageBase

    w2 = copy.deepcopy(w)
    for a in {a for part in case["parts"] for a in part}:
        w2["indices"][a] += 1
    ref2 = c05.reference(w2)
    if ref2.error is not None:
        return
    done = []
    for pi, part in enumerate(case["parts"]):
        def go(sim, pi=pi):
            p = build_pipeline(w2)
            res = p.map(build_inputs(w2), run_folder=folder2, parallel=False, storage=storage, fixed_indices=requests[pi],
                        cleanup=False, persist_memory=True, **map_kwargs(w2))
            return {o: np.asarray(np.ma.getdata(res[o].store.mask)).astype(bool) for o in all_outputs(w2)
                    if isinstance(res[o].store, StorageBase)}

        masks, err, _sim = process(go)
        if err is not None:
            if isinstance(err, IndexError):
                return  # an explicit index of the first data set can be out of range... not for a longer axis, but be safe
            V("parts", f"reused-request-raised:{type(err).__name__}", {"part": part, "exc": repr(err)[:300]}, {"frame": _frame(err)})
            return
        done.append(part)
        for o, (shape, sel) in _masks_expected(w2, done).items():
            if o not in masks:
                continue
            if tuple(np.shape(masks[o])) != tuple(shape):
                V("parts", "store-has-another-shape", {"part": part, "output": o, "store": list(np.shape(masks[o])), "workload": list(shape)})
                return
            got = {tuple(int(x) for x in e) for e in np.ndindex(*shape) if not masks[o][e]}
            if got != sel:
                V("parts", "reused-request-selects-other-elements", {"part": part, "output": o, "present": sorted(got)[:10],
                                                                    "expected": sorted(sel)[:10]})
                return
    probes["requests_reused_on_longer_axis"] = 1


def _run_learners(case, w, ref, folder, process, V, probes, tape):
    from pipefunc.map.adaptive import create_learners

    seen = collections.Counter()
    st = case["config"]["storage"]
    storage = C.storage_arg(st)
    # functions whose mapped outputs live in this process's memory only: the learners of later functions read them there,
    # and a later run in the same process may compute them again (nothing on disk says they were done)
    mem_fns = {fd["name"] for fd in w["functions"]
               if fd.get("mapspec") and any(C.storage_of(st, w, o) != "file_array" for o in fd["outputs"])}
    split_at = {}

    def go(sim, cleanup=True, crash_at=None):
        if case.get("earlier_session") and cleanup:
            # the SAME process (one simulation: module state and hash salt are those of one interpreter) drove learners on
            # this folder before, with other inputs
            try:
                earlier(sim)
                probes["earlier_learner_session"] = 1
            except Exception:  # noqa: BLE001 - the other inputs were refused: nothing happened
                pass
            del sim.calls[:]
        if crash_at is not None:
            sim.fs.crash_at = sim.fs.n + crash_at  # the process running the learners dies before that file-system event
        p = build_pipeline(w)
        ld = create_learners(p, build_inputs(w), folder, internal_shapes=map_kwargs(w).get("internal_shapes"),
                             storage=storage, return_output=case["return_output"], cleanup=cleanup,
                             fixed_indices=_fx(case["fixed"]) if case["fixed"] else None,
                             split_independent_axes=case["split"])
        # per key: generations in order; across keys and inside a generation: any interleaving, point by point
        state = {k: 0 for k in ld}  # current generation per key
        npoints = 0
        # every point of every learner is asked for once; a scheduler that needs more than twice that is not terminating
        # (a constant bound of 2000 was a false alarm of the thorough tier: 648 keys x 4 learners of one point or more each)
        budget = 100 + 2 * sum(len(getattr(lp.learner, "sequence", ())) or 1 for gens in ld.values() for g in gens for lp in g)
        while True:
            ready = []
            for k, gens in ld.items():
                while state[k] < len(gens) and all(lp.learner.done() for lp in gens[state[k]]):
                    state[k] += 1
                if state[k] < len(gens):
                    for li, lp in enumerate(gens[state[k]]):
                        if not lp.learner.done():
                            ready.append((k, state[k], li))
            if not ready:
                break
            k, g, li = ready[sim.tape.choose(len(ready), "learner")]
            lp = ld[k][g][li]
            learner = lp.learner
            if case["pickle_learners"] and sim.tape.coin(0.3, "pickle-learner"):
                import cloudpickle

                learner = cloudpickle.loads(cloudpickle.dumps(learner))
                probes["learner_pickled"] = probes.get("learner_pickled", 0) + 1
            pts, _ = learner.ask(1)
            for pt in pts:
                y = learner.function(pt)
                learner.tell(pt, y)
                if learner is not lp.learner:
                    lp.learner.tell(pt, y)
                npoints += 1
            if npoints > max(2000, budget):
                raise RuntimeError("learner scheduler did not terminate")
        probes["learner_points"] = probes.get("learner_points", 0) + npoints
        probes["learner_keys"] = probes.get("learner_keys", 0) + len(ld)
        return len(ld)

    stored = collections.Counter()
    def earlier(sim):
        if True:
            from pipefunc.map.adaptive import create_learners as cl

            p0 = build_pipeline(w)
            ld0 = cl(p0, c05._variant_inputs(w, build_inputs(w)), folder, internal_shapes=map_kwargs(w).get("internal_shapes"),
                     storage=storage, cleanup=True)
            for gens in ld0.values():
                for gen in gens:
                    for lp in gen:
                        while not lp.learner.done():
                            pts, _ = lp.learner.ask(1)
                            for pt in pts:
                                lp.learner.tell(pt, lp.learner.function(pt))

    def final(sim):
        p = build_pipeline(w)
        res = p.map(build_inputs(w), run_folder=folder, parallel=False, storage=storage, cleanup=False,
                    **map_kwargs(w))
        return {o: canon(res[o].output) for o in all_outputs(w)}

    if case.get("learner_crash") is not None:
        # the process that drives the learners dies somewhere in the middle; the learners are then created again on the
        # same folder with cleanup=False and run to the end: nothing stored is redone, nothing half-stored counts as done
        _n, err, sim0 = process(lambda s: go(s, crash_at=case["learner_crash"]))
        if isinstance(err, SimCrash):
            probes["learners_process_died"] = 1
            stored = c05.stored_elements(folder, w, ref)
            nkeys, err, sim = process(lambda s: go(s, cleanup=False))
        else:
            nkeys, sim = _n, sim0  # the crash point lay beyond the end: an ordinary complete run
    elif mem_fns:
        probes["learners_with_memory_storage"] = 1

        def go_then_final(sim):
            n = go(sim)
            split_at["n"] = len(sim.calls)
            try:
                split_at["R"] = final(sim)
            except Exception as e:  # noqa: BLE001
                split_at["err"] = e
            return n

        nkeys, err, sim = process(go_then_final)
    else:
        nkeys, err, sim = process(go)
    final_calls = sim.calls[split_at["n"]:] if "n" in split_at else None
    if final_calls is not None:
        del sim.calls[split_at["n"]:]
    if err is not None:
        V("learners", f"learners-raised:{type(err).__name__}", {"exc": repr(err)[:300]}, {"frame": _frame(err)})
        return
    seen.update(stored)  # what was completely stored before the crash counts as computed
    for c in sim.calls:
        seen[c.key()] += 1
        if seen[c.key()] > max(1, ref.C0.get(c.key(), 0)):
            V("learners", "element-computed-twice", {"call": repr(c), "times": sum(1 for x in sim.calls if x.key() == c.key())},
              {"has_internal_shape": any(fd.get("out_shape") for fd in w["functions"] if fd["name"] == c.fn)})
            return
        if c.key() not in ref.C0:
            V("learners", "call-not-in-whole-run", {"call": repr(c)})
            return
    # (after a crash the stored/computed bookkeeping cannot attribute None-valued or result-like outputs to their call;
    # completeness is then judged by the final run below, which must find everything there)
    if case["fixed"] is None and case.get("learner_crash") is None and sum(seen.values()) != sum(ref.C0.values()):
        missing = list((ref.C0 - seen).keys())[:3]
        V("learners", "learners-did-not-compute-everything", {"missing": repr(missing)[:400]})
        return

    if final_calls is not None:
        R, err = split_at.get("R"), split_at.get("err")
        final_calls = redone = [c for c in final_calls if c.fn not in mem_fns]
    else:
        R, err, sim2 = process(final)
        final_calls = redone = sim2.calls
    if err is not None:
        V("learners", f"final-run-raised:{type(err).__name__}", {"exc": repr(err)[:300]}, {"frame": _frame(err)})
        return
    if case["fixed"] is None and redone:
        V("learners", "final-run-recomputed", {"calls": [repr(c) for c in redone][:4]})
        return
    for c in final_calls:
        seen[c.key()] += 1
        if seen[c.key()] > max(1, ref.C0.get(c.key(), 0)):
            V("learners", "element-computed-twice", {"call": repr(c), "where": "final"})
            return
    if R != ref.R0:
        bad = next(o for o in R if R[o] != ref.R0[o])
        V("learners", "final-result-differs", {"output": bad, "got": repr(R[bad])[:300], "ref": repr(ref.R0[bad])[:300]})
