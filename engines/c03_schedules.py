"""C03 — results, stored data and call counts independent of executor, storage and schedule."""
from __future__ import annotations

import collections
import contextlib
import copy
import os
import tempfile
import warnings

from sim.genpipe import all_outputs, build_inputs, build_pipeline, describe, gen_workload, map_kwargs
from sim.kernel import Deadlock, SimCrash, StepCap
from sim.loop import run_async
from sim.tape import Tape
from sim.userfuncs import canon

from . import common as C

PID = "C03"
RULE = ("one case = random map pipeline (1-5 functions, axes 1-3, zip/outer/reduction/generator/tuple outputs) x "
        "configuration (map|map_async, sequential | SimExecutor thread/process 1-4 workers fifo/any start | per-output "
        "executor dict | patched default pool; file_array|dict|shared_memory_dict uniform or per-output; persist on/off; "
        "short writes, buffer sizes) x one seeded schedule; oracle relative to the sequential in-memory reference, which is itself compared with an independent "
        "reading of the workload (sim/interp.py: MapSpec index arithmetic without pipefunc code) and an independent call count from "
        "the axis sizes; 30% of the cases map the same Pipeline object a second time under another configuration, about half use a Pipeline object that was mapped before on a data set of other sizes, 10% add a restricted run "
        "(fixed_indices) whose calls must all be calls of the full run; mapped root arrays may come from PipeFunc defaults (alone, or of another "
        "length and overridden by the input); for half of the thread-pool cases every source line of pipefunc's storage modules is "
        "a pre-emption point (sys.settrace), not only the seams; storages that need a folder are also used without run_folder. "
        "distinct_nontrivial = distinct (workload+config digest, task start/end/RPC order digest) pairs among runs in "
        "which at least two executor tasks were in flight at the same time")
COMPONENTS = {
    "real": ["pipefunc Pipeline/run_map/run_map_async/prepare_run/RunInfo", "FileArray/DictArray/SharedMemoryDictArray",
             "cloudpickle/pickle/json", "numpy", "pathlib/shutil on tmpfs", "asyncio Task/Future/wrap_future/gather",
             "FileArray's internal reader ThreadPoolExecutor"],
    "stub": ["executor pools (SimExecutor)", "process boundary (pickle round-trip)", "multiprocessing.Manager (FakeManager)",
             "event-loop selector and clock (DetLoop)", "write path of files under the scratch root (SimRaw)"],
    "not_run": ["zarr storages", "SLURM executor", "progress widgets"],
}
ASSUMPTIONS = [
    "pre-emption only at seams (submit, task start/end, Future.result, FS mutation, manager RPC, user-function entry/exit), plus "
    "every source line of pipefunc/map/_storage_array/* for thread-pool cases with line-level pre-emption switched on",
    "process isolation emulated by pickle round-trips inside one interpreter",
    "oracle is relative to the sequential dict-storage run of the same tree",
]


def gen_case(tape, tier):
    w = gen_workload(tape)
    cfg = {
        "entry": tape.pick(["map", "map", "map_async"], "entry"),
        "executor": C.gen_executor(tape, w),
        "storage": C.gen_storage(tape, w),
        "run_folder": True,
        "persist_memory": bool(tape.coin(0.7, "persist")),
        "preempt": tape.pick([0.05, 0.3, 0.6, 0.9], "preempt"),
        "short_writes": tape.pick([0.0, 0.0, 0.3], "short-writes"),
        "buffer_size": tape.pick([None, None, 16, 64], "buffer-size"),
        "show_progress": bool(tape.coin(0.1, "show-progress")),
    }
    if not C.needs_folder(cfg["storage"]):
        cfg["run_folder"] = bool(tape.coin(0.5, "folder"))
    elif tape.coin(0.1, "no-folder-given"):
        cfg["run_folder"] = False  # a storage that needs a folder, none given: pipefunc makes a temporary one (and warns)
    if cfg["entry"] == "map_async" and cfg["executor"]["kind"] == "sequential":
        cfg["executor"] = {"kind": "default-pool", "ex": {"mode": "process", "workers": 2, "start": "fifo",
                                                          "pickle_at": "submit"}}
    if _uses_threads(cfg["executor"]) and tape.coin(0.5, "line-preemption"):
        # tasks of a thread pool share the storage objects: every source line of the storage modules is a pre-emption point
        cfg["line_preempt"] = True
    case = {"workload": w, "config": cfg}
    if len(w["indices"]) >= 2:
        case["warmup_other_sizes"] = bool(len(w["functions"]) % 2)  # (no draw: existing cases keep their tapes)
    if tape.coin(0.3, "second-run"):
        # the same Pipeline object is mapped a second time under another configuration: nothing may leak
        cfg2 = dict(cfg, entry=tape.pick(["map", "map", "map_async"], "entry"), executor=C.gen_executor(tape, w),
                    storage=C.gen_storage(tape, w), persist_memory=bool(tape.coin(0.7, "persist")))
        if not C.needs_folder(cfg2["storage"]):
            cfg2["run_folder"] = bool(tape.coin(0.5, "folder"))
        else:
            cfg2["run_folder"] = True
        if cfg2["entry"] == "map_async" and cfg2["executor"]["kind"] == "sequential":
            cfg2["executor"] = {"kind": "default-pool", "ex": {"mode": "process", "workers": 2, "start": "fifo", "pickle_at": "submit"}}
        case["second"] = cfg2
    axes = sorted(a for a, n in w["indices"].items() if n > 0)
    if axes and tape.coin(0.1, "restricted-run"):
        # the same map restricted to part of an axis (fixed_indices): if the tree accepts the request, every call it
        # makes must still be one of the full run's calls - a function must never see an incompletely filled input
        a = tape.pick(axes, "fixed-axis")
        i_fixed = tape.choose(w["indices"][a], "fixed-index")
        case["restricted"] = {a: i_fixed - w["indices"][a] if tape.coin(0.3, "negative-index") else i_fixed}
        # ... executed after the other runs in a folder of its own, or BEFORE the first run in the first run's folder,
        # which then continues it (cleanup=False) under the case's executor and storage: together they are one full run
        case["restricted_first"] = bool(tape.coin(0.5, "restricted-first")) and cfg["run_folder"]
        case["restricted_swap"] = bool(case["restricted_first"] and tape.coin(0.4, "swap-memory-backend"))
    cands = [fd for fd in w["functions"] if _only_elementwise_consumers(w, fd)]
    if cands and tape.coin(0.5, "masked-values"):
        # a function with a generated axis returns a masked array of its own (some entries masked); every consumer takes
        # the output element by element: whatever the storage, it is handed the data
        tape.pick(cands, "masked-fn")["masked_out"] = True
    if _has_elementwise_reader(w) and tape.coin(0.25, "aim-shared-storage"):
        # several tasks read elements of the same stored file: aim the case at the configuration in which they share the
        # storage object (one thread pool, file storage) and every source line of the storage modules is a yield point
        cfg.update(executor={"kind": "single", "ex": {"mode": "thread", "workers": 2 + tape.choose(3, "workers"), "start": "any",
                                                      "pickle_at": "start"}},
                   storage="file_array", run_folder=True, line_preempt=True, preempt=tape.pick([0.6, 0.9], "preempt"))
    return case


def _has_elementwise_reader(w):
    from sim.interp import _parse

    for fd in w["functions"]:
        if not (fd.get("out_shape") and fd.get("mapspec")):
            continue
        rank = len(_parse(fd["mapspec"])[1])
        for o in fd["outputs"]:
            for g in w["functions"]:
                if o in g["params"] and g.get("mapspec") and not g["mapspec"].strip().startswith("..."):
                    spec = _parse(g["mapspec"])[0].get(o)
                    if spec is not None and ":" not in spec and len(spec) == rank:
                        return True
    return False


def _only_elementwise_consumers(w, fd):
    from sim.interp import _parse

    if not (fd.get("out_shape") and fd.get("mapspec") and len(fd["outputs"]) == 1) or fd["mapspec"].strip().startswith("..."):
        return False  # (a function without mapped inputs is called once and its array is the output as it is, mask and all)
    o = fd["outputs"][0]
    rank = len(_parse(fd["mapspec"])[1])
    users = [g for g in w["functions"] if o in g["params"]]
    for g in users:
        if not g.get("mapspec") or g["mapspec"].strip().startswith("..."):
            return False
        spec = _parse(g["mapspec"])[0].get(o)
        if spec is None or ":" in spec or len(spec) != rank:
            return False
    return bool(users)


def _uses_threads(ex):
    if ex["kind"] in ("single", "default-pool"):
        return ex["ex"]["mode"] == "thread"
    if ex["kind"] in ("dict", "dict-default"):
        return any(e["mode"] == "thread" for e in ex["per"].values())
    return False


def simplify(case):
    if case.get("warmup_other_sizes"):
        c = copy.deepcopy(case)
        c["warmup_other_sizes"] = False
        yield c
    if case.get("restricted"):
        c = copy.deepcopy(case)
        del c["restricted"]
        yield c
        if case.get("second"):
            c = copy.deepcopy(case)
            del c["second"]
            yield c
        for w in C.simplify_workload(case["workload"]):
            (a, i), = case["restricted"].items()
            if a in w["indices"] and -w["indices"][a] <= i < w["indices"][a]:
                c = copy.deepcopy(case)
                c["workload"] = w
                c.pop("second", None)
                if c["config"]["executor"]["kind"] in ("dict", "dict-default"):
                    c["config"]["executor"] = {"kind": "single", "ex": next(iter(c["config"]["executor"]["per"].values()))}
                if isinstance(c["config"]["storage"], dict):
                    c["config"]["storage"] = next(iter(c["config"]["storage"].values()))
                yield c
        return
    if case.get("second"):
        c = copy.deepcopy(case)
        del c["second"]
        yield c
        c = copy.deepcopy(case)
        c["config"] = c.pop("second")
        yield c
    for w in C.simplify_workload(case["workload"]):
        c = copy.deepcopy(case)
        c["workload"] = w
        c.pop("second", None)
        # executor/storage dicts keyed by outputs must stay total: fall back to uniform
        if c["config"]["executor"]["kind"] in ("dict", "dict-default"):
            per = c["config"]["executor"]["per"]
            c["config"]["executor"] = {"kind": "single", "ex": next(iter(per.values()))}
        if isinstance(c["config"]["storage"], dict):
            c["config"]["storage"] = next(iter(c["config"]["storage"].values()))
        yield c
    cfg = case["config"]
    if isinstance(cfg["storage"], dict):
        for s in sorted(set(cfg["storage"].values())):
            c = copy.deepcopy(case)
            c["config"]["storage"] = s
            yield c
    if cfg["executor"]["kind"] in ("dict", "dict-default"):
        for e in cfg["executor"]["per"].values():
            c = copy.deepcopy(case)
            c["config"]["executor"] = {"kind": "single", "ex": e}
            yield c
    if cfg["executor"]["kind"] == "single":
        ex = cfg["executor"]["ex"]
        if ex["mode"] == "process":
            c = copy.deepcopy(case)
            c["config"]["executor"]["ex"]["mode"] = "thread"
            yield c
        if ex["workers"] > 1:
            c = copy.deepcopy(case)
            c["config"]["executor"]["ex"]["workers"] = ex["workers"] - 1
            yield c
    if cfg["entry"] == "map_async":
        c = copy.deepcopy(case)
        c["config"]["entry"] = "map"
        yield c
    if cfg.get("short_writes") or cfg.get("buffer_size"):
        c = copy.deepcopy(case)
        c["config"]["short_writes"] = 0.0
        c["config"]["buffer_size"] = None
        yield c


def run_case(case, exec_seed=None, exec_tape=None):
    with contextlib.ExitStack() as stack:
        return _run_case(case, exec_seed, exec_tape, stack)


def _run_case(case, exec_seed, exec_tape, stack):
    w, cfg = case["workload"], case["config"]
    out = {"violations": [], "probes": {}, "nontrivial": [], "evaluations": 1}
    C.begin_case()
    ref = C.reference_run(w)
    if ref.error is not None:
        out["discarded"] = True
        out["exec_tape"] = []
        out["probes"] = {"discarded:" + type(ref.error).__name__: 1}
        return out
    tape = Tape(exec_seed) if exec_tape is None else Tape(recorded=exec_tape)
    viol = out["violations"]

    def V(oracle, kind, detail=None):
        viol.append({"property": PID, "oracle": oracle, "kind": kind, "detail": detail})

    if C.report_mismatch(ref, V):
        out.update(exec_tape=[], digest=C.digest_of([describe(w), "independent"]), sim_time=0.0, yields=0,
                   probes={"independent_reading_disagrees": 1}, sample={"workload": describe(w), "config": cfg})
        return out
    runs = [("first", cfg)] + ([("second", case["second"])] if case.get("second") else [])
    if case.get("restricted"):
        rcfg = dict(cfg, fixed=case["restricted"], run_folder=True)
        if case.get("restricted_first"):
            if case.get("restricted_swap"):
                # the two memory backends are interchangeable on disk: the earlier part was run with the other one
                swap = {"dict": "shared_memory_dict", "shared_memory_dict": "dict"}
                st = rcfg["storage"]
                rcfg["storage"] = swap.get(st, st) if isinstance(st, str) else {k: swap.get(v, v) for k, v in st.items()}
            runs.insert(0, ("restricted", dict(rcfg, persist_memory=True, executor={"kind": "sequential"}, entry="map")))
        else:
            runs.append(("restricted", rcfg))
    shared = {}
    digests = []
    carry = {}  # an accepted restricted run that the first run continues: its scratch root and its calls
    for run_tag, cfg in runs:
      if viol:
          break
      resumed = run_tag == "first" and "root" in carry
      if resumed:
          ctx = contextlib.nullcontext(carry["root"])
      elif run_tag == "restricted" and case.get("restricted_first"):
          ctx = contextlib.nullcontext(stack.enter_context(C.Scratch()))  # lives until the case ends
      else:
          ctx = C.Scratch()
      with ctx as root, warnings.catch_warnings():
        warnings.simplefilter("ignore")
        sim = C.new_sim(tape, root, preempt=cfg["preempt"], step_cap=C.step_cap_for(w),
                        fs_kwargs={"short_writes": cfg.get("short_writes", 0.0), "buffer_size": cfg.get("buffer_size")})
        folder = os.path.join(root, "run") if cfg["run_folder"] else None
        if cfg.get("line_preempt"):
            sim.kernel.line_preempt = ("/pipefunc/map/_storage_array/",)
            sim.kernel.step_cap = 20 * C.step_cap_for(w)
        res = None
        err = None
        loop = None
        nviol0 = len(viol)
        try:
            with sim:
                if "p" not in shared:
                    shared["p"] = build_pipeline(w)
                p = shared["p"]
                inputs = build_inputs(w)
                executor, parallel = C.make_executor(sim, cfg["executor"])
                kw = dict(run_folder=folder, storage=C.storage_arg(cfg["storage"]),
                          persist_memory=cfg["persist_memory"], show_progress=bool(cfg.get("show_progress")), **map_kwargs(w))
                restricted = run_tag == "restricted"
                if restricted:
                    kw["fixed_indices"] = dict(cfg["fixed"])
                if folder is None and C.needs_folder(cfg["storage"]):
                    import pipefunc.map._run_info as _ri

                    class _Tmp:  # tempfile as pipefunc.map._run_info sees it: temporary folders live in the scratch root
                        def __getattr__(self, name):
                            return getattr(tempfile, name)

                        @staticmethod
                        def mkdtemp(*a, **k):
                            d = os.path.join(root, f"tmp-run-{len(os.listdir(root))}")  # (a fixed name: it shows in event labels)
                            os.mkdir(d)
                            return d

                    shared.setdefault("saved_tempfile", _ri.tempfile)
                    _ri.tempfile = _Tmp()
                    sim.probe("temporary_run_folder")
                if resumed:
                    kw["cleanup"] = False
                    sim.probe("first_run_continues_restricted_run")

                def main():
                    if case.get("warmup_other_sizes") and not shared.get("warmed"):
                        # the same Pipeline object was used before on a data set of other sizes (every axis of the root
                        # arrays one longer), sequentially and in memory: nothing it learnt there may be used here
                        shared["warmed"] = True
                        w2 = copy.deepcopy(w)
                        for a in sorted({a for d in w2["inputs"].values() for a in d.get("axes", [])}):
                            w2["indices"][a] += 1
                        try:
                            p.map(build_inputs(w2), parallel=False, storage="dict", **map_kwargs(w2))
                            sim.probe("warmup_on_other_sizes")
                        except Exception:  # noqa: BLE001 - the other data set was refused: nothing happened
                            pass
                        del sim.calls[:]
                    if cfg["entry"] == "map":
                        return p.map(inputs, parallel=parallel, executor=executor, **kw)

                    async def co():
                        am = p.map_async(inputs, executor=executor, **kw)
                        return await am.task

                    r, lp = run_async(sim.kernel, co)
                    return r

                try:
                    res = sim.kernel.run(main)
                except Deadlock as e:
                    err = e
                    V("liveness", "deadlock", str(e))
                except StepCap as e:
                    err = e
                    V("liveness", "no-progress", str(e))
                except SimCrash:
                    raise
                except Exception as e:  # noqa: BLE001
                    err = e
                    if restricted and isinstance(e, (ValueError, IndexError)) and not sim.calls:
                        sim.probe("restricted_run_rejected")  # whether a request must be rejected is C06's question
                    else:
                        V("result", "raised:" + type(e).__name__, repr(e)[:300])
                finally:
                    C.restore_default_pool(sim)
                leaked = getattr(sim.kernel, "leaked", 0)
                if err is None and leaked:
                    V("liveness", "task-left-running", leaked)
                texc = [t for t in sim.kernel.threads if t.exc is not None]
                if err is None and texc:
                    V("liveness", "task-thread-died:" + type(texc[0].exc).__name__, repr(texc[0].exc)[:300])
                if res is not None and restricted and case.get("restricted_first"):
                    # keep the folder: the first run continues there (the scratch directory lives until the case ends)
                    earlier = []
                    for c0 in sim.calls:  # everything of the restricted run happened before the first run starts
                        c1 = copy.copy(c0)
                        c1.start, c1.end = c0.start - 10**9, (c0.end - 10**9 if c0.end is not None else None)
                        earlier.append(c1)
                    carry["root"], carry["calls"] = root, earlier
                if res is not None and restricted:
                    # an accepted request computes and stores precisely the selected elements
                    import numpy as np
                    from pipefunc.map._storage_array._base import StorageBase

                    from . import c06_parts as c06

                    for o, (shape, sel) in c06._masks_expected(w, [cfg["fixed"]]).items():
                        st = res[o].store if o in res else None
                        if isinstance(st, StorageBase):
                            msk = np.asarray(np.ma.getdata(st.mask)).astype(bool)
                            if msk.shape != tuple(shape):
                                V("stored", "restricted-run-store-has-another-shape",
                                  {"fixed": cfg["fixed"], "output": o, "store": list(msk.shape), "workload": list(shape)})
                                break
                            got = {tuple(int(x) for x in e) for e in np.ndindex(*shape) if not msk[e]}
                            if got != sel:
                                V("stored", "restricted-run-stored-other-elements-than-selected",
                                  {"fixed": cfg["fixed"], "output": o, "present": sorted(got)[:8], "selected": sorted(sel)[:8]})
                                break
                if res is not None and restricted:
                    sim.probe("restricted_run_accepted")
                    got = collections.Counter(c.key() for c in sim.calls)
                    for key, n in got.items():
                        if n > ref.C0.get(key, 0):
                            fn = key[0] if isinstance(key, tuple) else key
                            V("calls", "restricted-run-made-a-call-the-full-run-never-makes" if key not in ref.C0
                              else "restricted-run-duplicate-call", {"fixed": cfg["fixed"], "call": repr(key)[:300], "fn": repr(fn)[:40]})
                            break
                elif res is not None:
                    # 1. results (the returned mapping: same entries in the same order, same values)
                    if list(res.keys()) != ref.order:
                        V("result", "result-entries-differ", {"got": list(res.keys()), "ref": ref.order})
                    for o in all_outputs(w):
                        if o in res and (res[o].output_name != o or res[o].function != ref.functions[o]):
                            V("result", "result-labels-differ", {"output": o, "got": [res[o].output_name, res[o].function]})
                            break
                    for o in all_outputs(w):
                        if o not in res:
                            break
                        got = canon(res[o].output)
                        if got != ref.R0[o]:
                            V("result", "output-differs", {"output": o, "got": repr(got)[:300], "ref": repr(ref.R0[o])[:300]})
                            break
                    # 2. stored data
                    _check_stored(w, cfg, res, ref, folder, V, fresh_folder=not resumed)
                    # 3 + 4. call log
                    for kind, detail in C.check_calls(w, (carry["calls"] if resumed else []) + list(sim.calls), ref.C0):
                        V("calls", kind, detail)
        finally:
            C.restore_default_pool(sim)
            if "saved_tempfile" in shared:
                import pipefunc.map._run_info as _ri

                _ri.tempfile = shared.pop("saved_tempfile")
      digests.append(sim.kernel.digest())
      out["yields"] = out.get("yields", 0) + sim.kernel.steps
      for v in viol[nviol0:]:
          v["kind"] = v["kind"] if run_tag == "first" else f"{run_tag}-run:" + v["kind"]
    cfg = case["config"]
    k = sim.kernel
    out["exec_tape"] = tape.recorded()
    out["digest"] = C.digest_of(digests)
    out["sim_time"] = 0.0
    pr = dict(sim.probes)
    if len(runs) > 1:
        pr["second_run_on_same_pipeline"] = 1
    if cfg.get("line_preempt") and _has_elementwise_reader(w):
        pr["thread_tasks_read_elements_of_one_file_with_line_preemption"] = 1
    if any(fd.get("masked_out") for fd in w["functions"]):
        pr["masked_values_along_generated_axis"] = 1
    pr[f"entry:{cfg['entry']}"] = 1
    pr[f"executor:{cfg['executor']['kind']}"] = 1
    for s in ([cfg["storage"]] if isinstance(cfg["storage"], str) else set(cfg["storage"].values())):
        pr[f"storage:{s}"] = 1
    if isinstance(cfg["storage"], dict):
        pr["storage:mixed"] = 1
    pr["overlap_runs"] = 1 if k.max_concurrent >= 2 and any(e.max_running > 1 for e in sim.executors) else 0
    out["probes"] = pr
    if pr["overlap_runs"]:
        out["nontrivial"] = [C.digest_of([describe(w), cfg]) + ":" + k.sched_digest()]
    out["sample"] = {"workload": describe(w), "config": cfg, "schedule_digest": k.sched_digest(),
                     "calls": len(sim.calls), "yields": k.steps}
    return out


def _check_stored(w, cfg, res, ref, folder, V, fresh_folder=True):
    from pipefunc.map import load_outputs
    from pipefunc.map._storage_array._base import StorageBase

    from pipefunc.map._result import DirectValue

    for o in all_outputs(w):
        if o not in res:
            return
        st = res[o].store
        if isinstance(st, StorageBase):
            got = canon(st.to_array())
            if got != ref.R0[o]:
                V("stored", "store-differs", {"output": o, "got": repr(got)[:300], "ref": repr(ref.R0[o])[:300]})
                return
        elif isinstance(st, DirectValue):
            if not st.exists() or canon(st.value) != ref.R0[o]:
                V("stored", "direct-value-differs", {"output": o, "got": repr(canon(st.value) if st.exists() else None)[:300]})
                return
    if folder is None:
        return
    for o in all_outputs(w):
        sid = C.storage_of(cfg["storage"], w, o)
        fd = next(f for f in w["functions"] if o in f["outputs"])
        persisted = (not fd.get("mapspec")) or sid in ("file_array", "eager_dict") or cfg["persist_memory"]
        if not persisted:
            # "equal stored data for every choice": with persist_memory off a memory backend leaves nothing behind,
            # whichever entry point and executor ran the map
            if fresh_folder and os.path.exists(os.path.join(folder, "outputs", o, "dict_array.cloudpickle")):
                V("stored", "memory-storage-persisted-although-persist_memory-is-off", {"output": o, "storage": sid, "entry": cfg["entry"]})
                return
            continue
        try:
            got = canon(load_outputs(o, run_folder=folder))
        except Exception as e:  # noqa: BLE001
            V("stored", "load-raised:" + type(e).__name__, {"output": o, "error": repr(e)[:300]})
            return
        if got != ref.R0[o]:
            V("stored", "loaded-differs", {"output": o, "got": repr(got)[:300], "ref": repr(ref.R0[o])[:300]})
            return
