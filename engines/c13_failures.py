"""C13 — user-function failures surface unchanged, attributed and reproducible.

mode 'enumerate': for a sampled workload x execution kind, every (function, invocation) of the
reference call log is made the failing one in turn.  mode 'plan': explicit fault plan (replay)."""
from __future__ import annotations

import asyncio
import collections
import copy
import os
import warnings

from sim import manager as simmanager
from sim.genpipe import (all_outputs, build_inputs, build_pipeline, describe, gen_dag, gen_workload, map_kwargs,
                         root_kwargs, upstream)
from sim.kernel import Deadlock, SimCrash, StepCap
from sim.loop import run_async
from sim.tape import Tape, derive_seed
from sim.userfuncs import EXC_KINDS, Fault, FaultPlan, canon, make_exc

from . import c05_crash as c05
from . import common as C

PID = "C13"
RULE = ("one case = (map pipeline | plain DAG) x execution kind (pipeline(...), run(full_output), map sequential, "
        "SimExecutor thread / process, patched default pool, map_async) x seeded schedule; every (function, "
        "invocation) of the reference call log is injected as the single failing call with a rotating exception type "
        "(ValueError('m'), KeyError('k'), ZeroDivisionError(), RuntimeError(), picklable CustomError(7,'detail'), keyword-only "
        "KwOnlyError, FileNotFoundError(2, ...), StopIteration, TimeoutError); several functions may share one __name__; "
        "two-failure plans (more in thorough) and plans in which the user code raises one shared exception object from "
        "several invocations; functions may run under profile=True (real ResourceProfiler thread; every case ends with a census "
        "of stray non-daemon threads) and about one case in eight runs as a multiprocessing child "
        "(multiprocessing.parent_process seam). evaluations = injected plans executed; distinct_nontrivial = distinct "
        "(workload, execution kind, failing function, failing arguments) in which the fault actually fired")
COMPONENTS = {
    "real": ["pipefunc Pipeline.__call__/run/_run/_execute_func", "run_map/run_map_async error paths", "handle_error",
             "PipeFunc.__call__ + ErrorSnapshot (capture, reproduce, save_to_file/load_from_file via cloudpickle)",
             "pickle round-trip of exceptions incl. __notes__ (process mode)", "load_outputs after the failure"],
    "stub": ["executor pools", "process boundary", "event loop selector", "multiprocessing.Manager", "raw file writes",
             "multiprocessing.parent_process (main program vs multiprocessing child)"],
    "not_run": ["real ProcessPoolExecutor's BrokenProcessPool path for unpicklable exceptions"],
}
ASSUMPTIONS = [
    "faults are keyed by the failing call's arguments, so ErrorSnapshot.reproduce() deterministically fails again",
    "'no function of a later generation is invoked': for map, no call of a later generation appears at all; for "
    "pipeline(...)/run, no call of a later generation starts after the failure",
    "ErrorSnapshot clauses are checked for in-process execution only (call, run, sequential map, thread-mode executor)",
]

EXEC_KINDS = ["call", "run", "map-seq", "map-thread", "map-process", "map-pool", "async-thread", "async-process", "map-plain"]


def gen_case(tape, tier):
    kind = tape.pick(EXEC_KINDS, "exec-kind")
    if kind in ("call", "run", "map-plain"):
        # (map-plain: Pipeline.map with default arguments on a pipeline without any MapSpec - a chain like that runs in-process)
        w = gen_dag(tape)
        output = tape.pick(all_outputs(w), "output")
    else:
        w = gen_workload(tape, max_funcs=4)
        for fd in w["functions"]:
            fd.pop("scribbles", None)  # (a function that changes its arguments before failing changes what a snapshot can show)
        output = None
    cfg = {
        "exec": kind,
        "output": output,
        "workers": 1 + tape.choose(3, "workers"),
        "start": tape.pick(["fifo", "any"], "start"),
        "storage": C.gen_storage(tape, w) if kind not in ("call", "run") else None,
        "preempt": tape.pick([0.1, 0.4, 0.8], "preempt"),
        "two_failures": bool(tape.coin(0.5 if tier == "thorough" else 0.3, "two")),
        "shared_exc": bool(tape.coin(0.3, "shared-exc")),
        "max_plans": 40 if tier == "quick" else 120,
        # the program that uses pipefunc is itself a multiprocessing child (parent_process() is not None)
        "as_mp_child": bool(tape.coin(0.12, "as-mp-child")),
        # the pipeline object in use is not the one that was constructed: it went through cloudpickle (loaded from a
        # file, sent over) or copy.deepcopy first
        "roundtrip": tape.pick([None, None, None, "cloudpickle", "deepcopy"], "pipeline-roundtrip"),
    }
    if kind in ("call", "run") and tape.coin(0.25, "uncopyable-arg"):
        roots = sorted(root_kwargs(w, output))
        if roots:
            cfg["uncopyable_arg"] = tape.pick(roots, "uncopyable-which")  # like a lock or an open file passed through
    return {"mode": "enumerate", "workload": w, "config": cfg}


def simplify(case):
    if case["mode"] != "plan":
        return
    if case["config"]["exec"] not in ("call", "run"):
        for w in C.simplify_workload(case["workload"]):
            c = copy.deepcopy(case)
            c["workload"] = w
            if isinstance(c["config"]["storage"], dict):
                c["config"]["storage"] = next(iter(c["config"]["storage"].values()))
            # keep only faults on functions that still exist, match by function only
            names = {fd["name"] for fd in w["functions"]}
            c["faults"] = [dict(f, args=None) for f in c["faults"] if f["fn"] in names]
            if c["faults"]:
                yield c
        if isinstance(case["config"]["storage"], dict):
            for s in sorted(set(case["config"]["storage"].values())):
                c = copy.deepcopy(case)
                c["config"]["storage"] = s
                yield c
    if len(case["faults"]) > 1:
        for i in range(len(case["faults"])):
            c = copy.deepcopy(case)
            del c["faults"][i]
            yield c


# ------------------------------------------------------------------ helpers
def _exc_id(e):
    return (type(e).__module__ + "." + type(e).__qualname__, e.args)


def _planned_ids(faults):
    out = []
    for f in faults:
        m = make_exc(f["exc"])
        out.append(_exc_id(m))
    return out


def _kwargs(w, cfg):
    from sim.userfuncs import Uncopyable

    kw = root_kwargs(w, cfg["output"])
    if cfg.get("uncopyable_arg") in kw:
        kw[cfg["uncopyable_arg"]] = Uncopyable(cfg["uncopyable_arg"])
    return kw


def args_to_json(args):
    return repr(args)


def _note_ok(e, fn, call_args):
    """One note names the failing function and every keyword of the failing invocation."""
    notes = getattr(e, "__notes__", None) or []
    for n in notes:
        if f"`{fn}(" not in n:
            continue
        ok = True
        for p, v in call_args:
            if p == "res":
                continue  # the Resources object pipefunc itself injects (resources_variable) is not an argument of the caller
            if f"{p}=" not in n:
                ok = False
                break
            if isinstance(v, str) and v not in ("<NaN>", "<MASKED>") and f"{p}={v!r}" not in n:  # ints may arrive as numpy scalars
                ok = False
                break
        if ok:
            return True
    return False


# ------------------------------------------------------------------ one plan
_ASYNC = [False]


def run_plan(w, cfg, faults, ref, tape, gens, then=None):
    viol = []
    info = {"probes": {}, "fired": [], "yields": 0, "digest": None}

    def V(oracle, kind, detail=None):
        viol.append({"property": PID, "oracle": oracle, "kind": kind, "detail": detail,
                     "signature": {"exec": cfg["exec"], "async": cfg["exec"].startswith("async"),
                                   "exc_kinds": sorted({f["exc"] for f in faults})}})

    kind = cfg["exec"]
    inproc = kind in ("call", "run", "map-seq", "map-thread", "async-thread")
    if kind == "map-plain":
        # map() with default arguments runs a pipeline without MapSpec in-process exactly when it is a plain chain (one
        # function per generation); otherwise it legitimately uses its default process pool
        per_gen = collections.Counter(gens.values())
        inproc = all(n == 1 for n in per_gen.values())
        if inproc:
            info["probes"]["plain_chain_mapped_with_defaults"] = 1
    pub = {fd["name"]: fd.get("public_name") or fd["name"] for fd in w["functions"]}  # the name pipefunc knows a function by
    with C.Scratch() as root, warnings.catch_warnings():
        warnings.simplefilter("ignore")
        sim = C.new_sim(tape, root, preempt=cfg["preempt"], step_cap=C.step_cap_for(w))
        sim.as_mp_child = bool(cfg.get("as_mp_child"))
        import threading as _threading

        threads_before = set(_threading.enumerate())
        fobjs = [Fault(f["fn"], f.get("args_obj"), f["exc"]) if f.get("args_obj") is not None
                 else Fault(f["fn"], None, f["exc"], nth=f.get("nth", 0)) for f in faults]
        sim.faults = FaultPlan(fobjs, shared_instances=bool(cfg.get("shared_exc")))
        folder = os.path.join(root, "run")
        err = None
        outcome = None
        try:
            with sim:
                p = build_pipeline(w)
                if cfg.get("roundtrip") == "cloudpickle":
                    import cloudpickle

                    p = cloudpickle.loads(cloudpickle.dumps(p))
                    info["probes"]["pipeline_roundtrip"] = 1
                elif cfg.get("roundtrip") == "deepcopy":
                    p = copy.deepcopy(p)
                    info["probes"]["pipeline_roundtrip"] = 1
                k = sim.kernel

                def main():
                    if kind == "call":
                        return p(cfg["output"], **_kwargs(w, cfg))
                    if kind == "run":
                        return p.run(cfg["output"], full_output=True, kwargs=_kwargs(w, cfg))
                    inputs = build_inputs(w)
                    kw = dict(run_folder=folder, storage=C.storage_arg(cfg["storage"]), **map_kwargs(w))
                    if kind == "map-plain":
                        C.install_default_pool(sim, {"workers": 2, "start": "fifo"})  # (should pipefunc decide to use a pool)
                        return p.map(inputs, **kw)
                    if kind == "map-seq":
                        return p.map(inputs, parallel=False, **kw)
                    if kind == "map-pool":
                        C.install_default_pool(sim, {"workers": cfg["workers"], "start": cfg["start"]})
                        return p.map(inputs, parallel=True, **kw)
                    mode = "thread" if kind.endswith("thread") else "process"
                    ex = C.SimExecutor(sim, mode=mode, workers=cfg["workers"], start=cfg["start"])
                    if kind.startswith("map-"):
                        return p.map(inputs, executor=ex, **kw)

                    async def co():
                        am = p.map_async(inputs, executor=ex, **kw)
                        return await am.task

                    return run_async(k, co)[0]

                def wrapped():
                    nonlocal err, outcome
                    try:
                        main()
                        outcome = "ok"
                    except (Deadlock, StepCap) as e:
                        err, outcome = e, type(e).__name__
                    except SimCrash:
                        raise
                    except asyncio.CancelledError as e:  # a BaseException: what surfaced instead of the user's exception
                        err, outcome = e, "raised"
                    except Exception as e:  # noqa: BLE001
                        err, outcome = e, "raised"
                    # let an abandoned pool finish what it can, as a real pool would
                    try:
                        k.drain()
                    except (Deadlock, StepCap):
                        pass
                    post()

                def post():
                    nonlocal err
                    fired = [f for f in fobjs if f.fired]
                    info["fired"] = [(f.fn, f.exc_kind) for f in fired]
                    raised_calls = [c for c in sim.calls if c.raised]
                    if not fired:
                        if outcome != "ok":
                            V("surface", f"raised-without-injected-fault:{type(err).__name__}", repr(err)[:300])
                        return
                    # 4. the call returns
                    if outcome in ("Deadlock", "StepCap"):
                        V("liveness", "deadlock" if outcome == "Deadlock" else "no-progress", str(err))
                        return
                    if outcome == "ok":
                        V("surface", "failure-swallowed", {"fired": info["fired"]})
                        return
                    # 1. same type and args.  Narrow, stated relaxation: asyncio cannot carry a StopIteration in a
                    # Future at all, so for the async entry point a RuntimeError chained (__cause__) to the planned
                    # StopIteration is the faithful outcome (PEP 479 style); it is unwrapped for the remaining checks.
                    ids = [_exc_id(make_exc(f.exc_kind)) for f in fired]
                    if kind.startswith("async") and isinstance(err, RuntimeError) and isinstance(err.__cause__, StopIteration) \
                            and _exc_id(err.__cause__) in ids:
                        notes = list(getattr(err, "__notes__", []) or []) + list(getattr(err.__cause__, "__notes__", []) or [])
                        err = err.__cause__
                        try:
                            err.__notes__ = notes
                        except Exception:  # noqa: BLE001
                            pass
                        info["probes"]["async_stopiteration_rewrapped"] = 1
                    if _exc_id(err) not in ids:
                        V("surface", "exception-changed", {"got": repr(_exc_id(err)), "planned": repr(ids)})
                        return
                    # 2. annotated with function name and keyword arguments of a failing invocation
                    cands = [c for c in raised_calls if _exc_id(make_exc(_kind_of(fobjs, c))) == _exc_id(err)]
                    if not any(_note_ok(err, pub[c.fn], c.args) for c in cands):
                        V("attribution", "note-missing-or-incomplete",
                          {"notes": getattr(err, "__notes__", None), "failing_calls": [repr(c) for c in cands][:3]})
                    elif cfg.get("shared_exc") and inproc:
                        # one exception object raised by several failing invocations: every one of them that went
                        # through pipefunc's error handler before the call returned must have left its note
                        for c in cands:
                            if not _note_ok(err, pub[c.fn], c.args):
                                V("attribution", "note-missing-for-a-failing-invocation",
                                  {"notes": getattr(err, "__notes__", None), "missing_for": repr(c), "failing_calls": [repr(x) for x in cands][:4]})
                                break
                    # 3. no later generation
                    first_fail = min(raised_calls, key=lambda c: c.end)
                    gmin = min(gens[c.fn] for c in raised_calls)
                    for c in sim.calls:
                        if gens[c.fn] > gmin and (kind not in ("call", "run") or c.start > first_fail.end):
                            if kind in ("call", "run") and gens[c.fn] <= gens[first_fail.fn]:
                                continue
                            V("generations", "later-generation-invoked", {"call": repr(c), "failed": repr(first_fail)})
                            break
                    # 5. ErrorSnapshot (in-process execution only)
                    if inproc:
                        _check_snapshot(p, w, fired, err, root, V, raised_calls)
                    # 6. completed results stay loadable
                    if kind not in ("call", "run"):
                        _check_loadable(w, cfg, folder, ref, V)
                    if kind.startswith("map-") and not viol:
                        _check_completed_functions(p, w, cfg, sim, raised_calls, folder, ref, V)
                    # 7. fault sequence: the SAME pipeline object fails a second time, in another invocation
                    if then is not None and inproc and not viol:
                        second(then)

                def second(t):
                    nonlocal err, outcome
                    f2 = Fault(t["fn"], t.get("args_obj"), t["exc"]) if t.get("args_obj") is not None \
                        else Fault(t["fn"], None, t["exc"], nth=t.get("nth", 0))
                    sim.faults = FaultPlan([f2])
                    n0 = len(sim.calls)
                    err2 = None
                    try:
                        main()
                    except (Deadlock, StepCap) as e:
                        V("liveness", "second-failure-" + type(e).__name__, str(e))
                        return
                    except (Exception, asyncio.CancelledError) as e:  # noqa: BLE001
                        err2 = e
                    try:
                        k.drain()
                    except (Deadlock, StepCap):
                        pass
                    if not f2.fired:
                        info["probes"]["second_fault_not_reached"] = 1
                        return
                    info["probes"]["second_failure_on_same_pipeline"] = 1
                    planned2 = _exc_id(make_exc(f2.exc_kind))
                    if kind.startswith("async") and isinstance(err2, RuntimeError) and isinstance(err2.__cause__, StopIteration):
                        n2 = list(getattr(err2, "__notes__", []) or []) + list(getattr(err2.__cause__, "__notes__", []) or [])
                        err2 = err2.__cause__
                        err2.__notes__ = n2
                    if err2 is None or _exc_id(err2) != planned2:
                        V("surface", "second-failure-exception-changed", {"got": repr(_exc_id(err2)) if err2 else None, "planned": repr(planned2)})
                        return
                    raised2 = [c for c in sim.calls[n0:] if c.raised]
                    if not any(_note_ok(err2, pub[c.fn], c.args) for c in raised2):
                        V("attribution", "second-failure-note-missing", {"notes": getattr(err2, "__notes__", None),
                                                                        "failing_calls": [repr(c) for c in raised2][:3]})
                        return
                    fd = next(x for x in w["functions"] if x["name"] == f2.fn)
                    out = fd["outputs"][0] if len(fd["outputs"]) == 1 else tuple(fd["outputs"])
                    snap = _snap_of(p[out])
                    same_fn = all(f.fn == f2.fn for f in fobjs)
                    tag = "same-function" if same_fn else "other-function"
                    if isinstance(snap, _Raised):
                        V("snapshot", f"function-snapshot-raised:{type(snap.e).__name__}", repr(snap.e)[:300])
                        return
                    if snap is None:
                        V("snapshot", f"second-failure-snapshot-missing:{tag}", {"fn": f2.fn})
                        return
                    outer2 = getattr(snap.function, "outer", {})
                    got_kw = {outer2.get(k2, k2): canon(v2) for k2, v2 in snap.kwargs.items()}
                    if got_kw not in [dict(c.args) for c in raised2 if c.fn == f2.fn] or _exc_id(snap.exception) != planned2:
                        V("snapshot", f"function-snapshot-stale-after-second-failure:{tag}",
                          {"fn": f2.fn, "snapshot_kwargs": repr(got_kw)[:300], "snapshot_exception": repr(_exc_id(snap.exception)),
                           "second_failure": [repr(c) for c in raised2][:2]})
                        return
                    ps = _snap_of(p)
                    if isinstance(ps, _Raised):
                        V("snapshot", f"pipeline-snapshot-raised:{type(ps.e).__name__}", repr(ps.e)[:300])
                        return
                    outer3 = getattr(ps.function, "outer", {}) if ps is not None else {}
                    if ps is None or _exc_id(ps.exception) != planned2 or \
                            {outer3.get(k2, k2): canon(v2) for k2, v2 in ps.kwargs.items()} not in [dict(c.args) for c in raised2]:
                        V("snapshot", f"pipeline-snapshot-stale-after-second-failure:{tag}",
                          {"pipeline_snapshot": None if ps is None else [repr(_exc_id(ps.exception)), repr(ps.kwargs)[:200]],
                           "second_failure": [repr(c) for c in raised2][:2]})
                        return
                    try:
                        ps.reproduce()
                    except Exception as e:  # noqa: BLE001
                        if _exc_id(e) != planned2:
                            V("snapshot", f"pipeline-snapshot-reproduces-other-exception:{tag}", {"reproduced": repr(_exc_id(e))})
                    else:
                        V("snapshot", f"pipeline-snapshot-did-not-reproduce-after-second-failure:{tag}")
                        return
                    if "Uncopyable(" not in repr(ps.kwargs):
                        # saved over the snapshot file of the first failure, then loaded: the latest failure, not an older one
                        from pipefunc._pipefunc import ErrorSnapshot

                        path = os.path.join(root, "last-error.pkl")
                        try:
                            ps.save_to_file(path)
                            loaded = ErrorSnapshot.load_from_file(path)
                            loaded.reproduce()
                        except Exception as e:  # noqa: BLE001
                            if _exc_id(e) != planned2:
                                V("snapshot", f"saved-snapshot-reproduces-other-exception-after-second-failure:{tag}",
                                  {"reproduced": repr(_exc_id(e)), "planned": repr(planned2)})
                        else:
                            V("snapshot", f"saved-snapshot-did-not-reproduce-after-second-failure:{tag}")

                try:
                    sim.kernel.run(wrapped)
                finally:
                    C.restore_default_pool(sim)
                texc = [t for t in sim.kernel.threads if t.exc is not None]
                if texc and not viol:
                    V("liveness", "task-thread-died:" + type(texc[0].exc).__name__, repr(texc[0].exc)[:300])
        finally:
            C.restore_default_pool(sim)
            simmanager.shutdown_all(sim)
        stray = C.stray_threads(threads_before)
        if stray and not viol:
            # a (worker) process with a live non-daemon thread never exits: the pool that waits for it hangs
            V("liveness", "non-daemon-thread-left-running", {"threads": stray, "fired": info["fired"]})
        if any(fd.get("profile") for fd in w["functions"]):
            info["probes"]["profiled_function"] = 1
        if cfg.get("as_mp_child"):
            info["probes"]["as_mp_child"] = 1
        info["yields"] = sim.kernel.steps
        info["digest"] = sim.kernel.digest()
        for k3, v3 in sim.probes.items():
            info["probes"][k3] = info["probes"].get(k3, 0) + v3
    return viol, info


def _kind_of(fobjs, call):
    for f in fobjs:
        if f.fn == call.fn and f.fired and (f.args is None or f.args == call.args):
            return f.exc_kind
    return fobjs[0].exc_kind


class _Raised:
    def __init__(self, e):
        self.e = e


def _snap_of(obj):
    """obj.error_snapshot, or a _Raised marker if reading the attribute raises (the API must expose it)."""
    try:
        return obj.error_snapshot
    except Exception as e:  # noqa: BLE001
        return _Raised(e)


def _check_snapshot(p, w, fired, err, root, V, raised_calls):
    from pipefunc._pipefunc import ErrorSnapshot

    planned = [_exc_id(make_exc(f.exc_kind)) for f in fired]
    ps0 = _snap_of(p)
    if isinstance(ps0, _Raised):
        V("snapshot", f"pipeline-snapshot-raised:{type(ps0.e).__name__}", repr(ps0.e)[:300])
        return
    if ps0 is None:
        V("snapshot", "pipeline-snapshot-missing")
        return
    for f in fired:
        fd = next(x for x in w["functions"] if x["name"] == f.fn)
        out = fd["outputs"][0] if len(fd["outputs"]) == 1 else tuple(fd["outputs"])
        snap = _snap_of(p[out])
        if isinstance(snap, _Raised):
            V("snapshot", f"function-snapshot-raised:{type(snap.e).__name__}", repr(snap.e)[:300])
            return
        if snap is None:
            V("snapshot", "function-snapshot-missing", {"fn": f.fn})
            return
        # the snapshot holds the keyword arguments of a failing invocation of that function
        failing = [dict(c.args) for c in raised_calls if c.fn == f.fn]
        outer = getattr(snap.function, "outer", {})
        got_kw = {outer.get(k2, k2): canon(v2) for k2, v2 in snap.kwargs.items()}
        if snap.args or got_kw not in failing:
            V("snapshot", "snapshot-arguments-differ", {"fn": f.fn, "snapshot_kwargs": repr(got_kw)[:300], "failing": repr(failing)[:300]})
            return
        if _exc_id(snap.exception) not in planned:
            V("snapshot", "snapshot-exception-differs", {"fn": f.fn, "got": repr(_exc_id(snap.exception))})
            return
        unsavable = "Uncopyable(" in repr(snap.kwargs)  # (possibly nested) value that cannot be pickled by nature
        for label, s in (("direct", snap),) + (() if unsavable else (("saved", None),)):
            if s is None:
                path = os.path.join(root, "last-error.pkl")  # one fixed file, overwritten by every save
                try:
                    snap.save_to_file(path)
                    s = ErrorSnapshot.load_from_file(path)
                except Exception as e:  # noqa: BLE001
                    V("snapshot", f"save-load-raised:{type(e).__name__}", repr(e)[:300])
                    return
            try:
                s.reproduce()
            except Exception as e:  # noqa: BLE001
                if _exc_id(e) not in planned:
                    V("snapshot", f"reproduce-{label}-different-exception", {"got": repr(_exc_id(e)), "planned": repr(planned)})
                    return
            else:
                V("snapshot", f"reproduce-{label}-did-not-raise", {"fn": f.fn})
                return
    ps = ps0
    try:
        ps.reproduce()
    except Exception as e:  # noqa: BLE001
        if _exc_id(e) not in planned:
            V("snapshot", "pipeline-reproduce-different-exception", {"got": repr(_exc_id(e))})
    else:
        V("snapshot", "pipeline-reproduce-did-not-raise")


def _check_loadable(w, cfg, folder, ref, V):
    import numpy as np

    from pipefunc.map import load_outputs

    if not os.path.isfile(os.path.join(folder, "run_info.json")):
        return
    done = c05.stored_elements(folder, w, ref)
    for o in all_outputs(w):
        try:
            got = load_outputs(o, run_folder=folder)
        except Exception as e:  # noqa: BLE001
            V("loadable", f"load-raised:{type(e).__name__}", {"output": o, "exc": repr(e)[:300]})
            return
        if o in ref.elements:
            fd = next(f for f in w["functions"] if o in f["outputs"])
            flat = canon(got)
            # (with an empty reduced axis, different elements of one output are computed from equal arguments; which of
            # them a stored value belongs to cannot be told from the value: such elements are not judged)
            mult = collections.Counter(c05._call_key(e) for e in ref.elements[o])
            for lin, exp in enumerate(ref.elements[o]):
                key = c05._call_key(exp)
                if key in done and mult[key] == 1:
                    ext = ref.ext_index[o][lin]
                    try:
                        v = np.ma.asarray(got)[ext] if not fd.get("out_shape") else None
                    except Exception:  # noqa: BLE001
                        v = None
                    if v is not None and canon(v) != exp:
                        V("loadable", "completed-element-not-loaded", {"output": o, "index": ext, "got": repr(canon(v))[:200],
                                                                       "expected": repr(exp)[:200]})
                        return
            del flat


def _check_completed_functions(p, w, cfg, sim, raised_calls, folder, ref, V):
    """'Results completed before the failure remain loadable', read for whole functions: a function that pipefunc lists before
    the failing one in the same generation is resolved and stored before the failing one is looked at (sequentially and with
    any executor alike); once all its calls have ended, its outputs are in the folder."""
    from pipefunc.map import load_outputs

    if not os.path.isfile(os.path.join(folder, "run_info.json")):
        return
    failing = {c.fn.split("'")[0] for c in raised_calls}
    by_out = {tuple(fd["outputs"]): fd for fd in w["functions"]}
    want = collections.Counter(c.fn.split("'")[0] for c in (ref.calls or []))
    ended = collections.Counter(c.fn.split("'")[0] for c in sim.calls if c.end is not None and c not in raised_calls)
    st = cfg["storage"]
    for gen in p.topological_generations.function_lists:
        fds = []
        for f in gen:
            outs = (f.output_name,) if isinstance(f.output_name, str) else tuple(f.output_name)
            fds.append(by_out.get(outs))
        if not any(fd is not None and fd["name"] in failing for fd in fds):
            continue
        for fd in fds:
            if fd is None or fd["name"] in failing:
                break
            if not want[fd["name"]] or ended[fd["name"]] != want[fd["name"]]:
                continue
            # (what a memory backend holds - single outputs included - reaches the folder only when the map ends: judged are
            # the outputs kept in files)
            if not all(C.storage_of(st, w, o) == "file_array" for o in fd["outputs"]):
                continue
            for o in fd["outputs"]:
                try:
                    got = canon(load_outputs(o, run_folder=folder))
                except Exception as e:  # noqa: BLE001
                    V("loadable", f"load-raised:{type(e).__name__}", {"output": o, "exc": repr(e)[:300]})
                    return
                exp = getattr(ref, "L0", ref.R0).get(o)
                if got != exp:
                    V("loadable", "completed-function-not-loadable", {"output": o, "function": fd["name"], "got": repr(got)[:200],
                                                                        "expected": repr(exp)[:200]})
                    return
        return


# ------------------------------------------------------------------ entry points
def _reference(w, cfg):
    if cfg["exec"] in ("call", "run"):
        ref = C.Reference(w)
        sim = C.new_sim(Tape(recorded=[]), preempt=0.0)
        try:
            with sim:
                p = build_pipeline(w)
                sim.kernel.run(lambda: p(cfg["output"], **_kwargs(w, cfg)))
            ref.calls = list(sim.calls)
        except Exception as e:  # noqa: BLE001
            ref.error = e
        return ref
    return c05.reference(w)


def _resolve_faults(faults, ref):
    """JSON faults carry (fn, call_index in the reference log); resolve to argument terms."""
    out = []
    for f in faults:
        g = dict(f)
        if g.get("exc") == "Problems" and not _ASYNC[0]:
            # concurrent.futures.Future.result() itself tests `if self._exception:`: with a falsy exception object a real
            # pool returns None instead of raising, before pipefunc sees anything.  Only the async path, which reads
            # task.exception() itself, is pipefunc's to get right.
            g["exc"] = "ValueError"
        g["args_obj"] = None
        if f.get("args") is not None or f.get("ref_index") is not None:
            per = [c for c in ref.calls if c.fn == f["fn"]]
            i = f.get("ref_index")
            if i is not None and i < len(per):
                g["args_obj"] = per[i].args
        out.append(g)
    return out


def run_case(case, exec_seed=None, exec_tape=None):
    C.begin_case()
    w, cfg = case["workload"], case["config"]
    out = {"violations": [], "probes": {}, "nontrivial": [], "evaluations": 0, "yields": 0, "sim_time": 0.0}
    _ASYNC[0] = cfg["exec"].startswith("async")
    ref = _reference(w, cfg)
    if ref.error is not None:
        out["discarded"] = True
        out["exec_tape"] = []
        return out
    gens = C.generations(w)
    if case["mode"] == "plan":
        tape = Tape(exec_seed) if exec_tape is None else Tape(recorded=exec_tape)
        then = _resolve_faults([case["then"]], ref)[0] if case.get("then") else None
        viol, info = run_plan(w, cfg, _resolve_faults(case["faults"], ref), ref, tape, gens, then=then)
        out.update(violations=viol, exec_tape=tape.recorded(), digest=info["digest"], evaluations=1, probes=info["probes"])
        return out
    seed = exec_seed or 0
    plans = []
    per_fn = {}
    for c in ref.calls:
        i = per_fn.get(c.fn, 0)
        per_fn[c.fn] = i + 1
        plans.append([{"fn": c.fn, "ref_index": i, "exc": EXC_KINDS[(i + len(plans)) % len(EXC_KINDS)]}])
    sel = Tape(derive_seed(seed, "select"))
    if len(plans) > cfg["max_plans"]:
        plans = sel.shuffle(plans, "plan-sample")[: cfg["max_plans"]]
    if cfg.get("two_failures") and len(plans) >= 2:
        for _ in range(min(10 if cfg["max_plans"] > 40 else 4, len(plans))):
            a, b = sel.pick(plans, "a")[0], sel.pick(plans, "b")[0]
            if (a["fn"], a["ref_index"]) != (b["fn"], b["ref_index"]):
                plans.append([a, dict(b, exc=a["exc"] if sel.coin(0.6, "same-exc") else sel.pick(EXC_KINDS, "exc"))])
    thens = {}
    if cfg["exec"] in ("call", "run", "map-seq", "map-thread", "async-thread") and len(plans) >= 2:
        singles = [p0 for p0 in plans if len(p0) == 1]
        for _ in range(min(4, len(singles))):
            a = sel.pick(singles, "then-a")[0]
            same = [p0[0] for p0 in singles if p0[0]["fn"] == a["fn"] and p0[0]["ref_index"] != a["ref_index"]]
            b = sel.pick(same, "then-b") if same and sel.coin(0.6, "then-same-fn") else sel.pick(singles, "then-b")[0]
            if (a["fn"], a["ref_index"]) != (b["fn"], b["ref_index"]):
                thens[len(plans)] = dict(b, exc=sel.pick(EXC_KINDS, "then-exc"))
                plans.append([a])
    probes = {}
    nontrivial = set()
    wd = C.digest_of([describe(w), cfg["exec"]])
    for pi, plan in enumerate(plans):
        tape = Tape(derive_seed(seed, "plan", pi))
        then = _resolve_faults([thens[pi]], ref)[0] if pi in thens else None
        viol, info = run_plan(w, cfg, _resolve_faults(plan, ref), ref, tape, gens, then=then)
        out["evaluations"] += 1
        out["yields"] += info["yields"]
        for k2, v2 in info["probes"].items():
            probes[k2] = probes.get(k2, 0) + v2
        if info["fired"]:
            nontrivial.add(f"{wd}:{plan[0]['fn']}:{plan[0]['ref_index']}")
            for _fn, ek in info["fired"]:
                probes[f"exc:{ek}"] = probes.get(f"exc:{ek}", 0) + 1
        else:
            probes["fault_not_reached"] = probes.get("fault_not_reached", 0) + 1
        for v in viol:
            v["case"] = {"mode": "plan", "workload": w, "config": cfg, "faults": plan, **({"then": thens[pi]} if pi in thens else {})}
            v["exec_tape"] = tape.recorded()
            out["violations"].append(v)
    probes[f"exec:{cfg['exec']}"] = 1
    out["probes"] = probes
    out["nontrivial"] = sorted(nontrivial)
    out["exec_tape"] = []
    out["digest"] = C.digest_of([wd, len(plans)])
    out["sample"] = {"workload": describe(w), "config": cfg, "plans": len(plans), "example_plan": plans[0] if plans else None}
    return out
