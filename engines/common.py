"""Helpers shared by the engines: scratch dirs, reference runs, executor/storage configs."""
from __future__ import annotations

import collections
import copy
import hashlib
import json
import os
import shutil
import tempfile

from sim import clock as simclock
from sim import env as simenv
from sim import fs as simfs
from sim import identity
from sim import manager as simmanager
from sim.context import Sim
from sim.executor import SimExecutor
from sim.genpipe import all_outputs, build_inputs, build_pipeline, map_kwargs
from sim.tape import Tape
from sim.userfuncs import MASKED, canon, contains_masked, subterms, term_base

SCRATCH_BASE = "/dev/shm" if os.path.isdir("/dev/shm") and os.access("/dev/shm", os.W_OK) else tempfile.gettempdir()


def digest_of(obj) -> str:
    return hashlib.sha256(json.dumps(obj, sort_keys=True, default=repr).encode()).hexdigest()[:12]


class Scratch:
    """Per-run scratch directory on tmpfs, removed afterwards."""

    def __init__(self):
        self.path = None

    def __enter__(self):
        self.top = tempfile.mkdtemp(prefix=f"pfsim-{os.getpid()}-", dir=SCRATCH_BASE)
        self.path = self.top
        odd = simenv.get("path")
        if odd:
            # the directory everything of the case lives in has an awkward (but ordinary) name
            self.path = os.path.join(self.top, odd)
            os.mkdir(self.path)
        return self.path

    def __exit__(self, *a):
        simfs.real_rmtree(self.top)
        return False


def begin_case():
    """Reset interpreter-global harness state so a case is a pure function of (case, tape)."""
    simmanager.install()
    simmanager.reset()
    identity.install()
    _salt[0] = _salt[1] = 0
    _ctimes.clear()
    _ctime_n[0] = 0
    reset_process_globals()  # e.g. pipefunc._utils._cached_load, a process-wide lru_cache keyed by (path, mtime, size)


def step_cap_for(w, base=20000):
    """Yield budget for one simulated process running workload `w`: a run does a bounded number of yields per stored
    element (~15 with a process pool and file storage), so a fixed cap calls a large healthy run `no-progress`."""
    from sim.genpipe import n_elements

    return base + 100 * n_elements(w)


_salt = [0, 0]  # [processes started in this case, salt of the latest one]
# File change times are a clock too ("the oldest file" of a DiskCache): every file written below a scratch root gets a
# strictly increasing virtual ctime that survives the simulated processes of one case.  Real ctimes on tmpfs have tick
# granularity, so two files written within one tick tie or not depending on the real clock - found by the determinism
# self-test (C09 part B, seed 77 index 137: the evicted file differed between two runs of the same tape).
_ctimes: dict = {}
_ctime_n = [0]


def _stamp_ctime(path, existed):
    _ctime_n[0] += 1
    _ctimes[path] = 2_000_000_000_000_000_000 + _ctime_n[0]


def new_sim(exec_tape, root=None, *, preempt=0.3, step_cap=20000, clock=False, fs_kwargs=None, log_events=False,
            same_process=False):
    sim = Sim(exec_tape, preempt=preempt, step_cap=step_cap, log_events=log_events)
    if not same_process or not _salt[1]:
        _salt[0] += 1
        _salt[1] = (_salt[0] * 0x9E3779B97F4A7C15) & 0x3FFFFFFFFFFFFFFF
    sim.hash_salt = _salt[1]  # every simulated process has its own str-hash salt (sim/identity.py)
    simmanager.install()
    if root is not None:
        simfs.SimFS(sim, root, **(fs_kwargs or {}))
        # file modification times come from a virtual coarse clock (0/1 tick per write): quick rewrites of a file
        # may share a timestamp, as on coarse-granularity file systems (only matters to code that reads mtimes)
        sim.fs.coarse_mtime = True
        sim.fs.ctimes = _ctimes  # one mapping per case: a later simulated process sees the ctimes of an earlier one
        sim.fs.on_open_write = _stamp_ctime  # (engines that choose ctimes themselves replace this hook)
    if clock:
        simclock.SimClock(sim)
    return sim


def install_default_pool(sim, spec):
    """Route pipefunc's `ProcessPoolExecutor()` (executor=None, parallel=True) to a SimExecutor."""
    import pipefunc.map._run as run_mod

    def factory(*a, **k):
        return SimExecutor(sim, mode="process", workers=spec.get("workers", 2), start=spec.get("start", "fifo"),
                           pickle_at=spec.get("pickle_at", "submit"), name="pool")

    sim._saved_pool = run_mod.ProcessPoolExecutor
    run_mod.ProcessPoolExecutor = factory


def reset_process_globals():
    """A new (simulated) process starts with fresh module state: every functools cache found in pipefunc's modules
    is cleared (memoised pools, loaders, ...).  Objects the harness itself hands over are not touched."""
    import sys

    for name, mod in list(sys.modules.items()):
        if mod is None or not (name == "pipefunc" or name.startswith("pipefunc.")):
            continue
        for v in list(vars(mod).values()):
            cc = getattr(v, "cache_clear", None)
            if callable(cc):
                try:
                    cc()
                except Exception:  # noqa: BLE001
                    pass


def restore_default_pool(sim):
    import pipefunc.map._run as run_mod

    if hasattr(sim, "_saved_pool"):
        run_mod.ProcessPoolExecutor = sim._saved_pool
        del sim._saved_pool


# ------------------------------------------------------------------ reference run
class Reference:
    def __init__(self, w):
        self.w = w
        self.R0 = None
        self.C0 = None
        self.calls = None
        self.error = None
        self.mismatch = None


def reference_run(w, storage="dict"):
    """Sequential, in-memory run of the same tree: the relative oracle's baseline (DESIGN 2.5)."""
    ref = Reference(w)
    sim = new_sim(Tape(recorded=[]), preempt=0.0)
    try:
        with sim:
            p = build_pipeline(w)
            inputs = build_inputs(w)
            res = sim.kernel.run(lambda: p.map(inputs, parallel=False, storage=storage, **map_kwargs(w)))
        ref.R0 = {o: canon(res[o].output) for o in all_outputs(w)}
        ref.order = list(res.keys())
        ref.functions = {o: res[o].function for o in res}
        ref.calls = list(sim.calls)
        ref.C0 = collections.Counter(c.key() for c in sim.calls)
        ref.mismatch = independent_mismatch(w, ref.R0)
    except Exception as e:  # noqa: BLE001 - refused candidates are discarded (DESIGN 2.5)
        ref.error = e
    return ref


def independent_mismatch(w, R0):
    """The sequential reference is a run of the same tree; sim/interp.py reads the workload without pipefunc.
    Returns None if they agree (or the workload uses something the interpreter does not model), else a detail dict."""
    from sim import interp

    try:
        exp = interp.expected_outputs(w)
    except interp.Unsupported:
        return None
    for o in exp:
        if o in R0 and exp[o] != R0[o]:
            return {"output": o, "sequential_run": repr(R0[o])[:300], "independent_reading": repr(exp[o])[:300]}
    return None


def report_mismatch(ref, V):
    m = getattr(ref, "mismatch", None)
    if m:
        V("independent", "sequential-run-differs-from-independent-reading-of-the-workload", m)
        return True
    return False


def expected_call_counts(w):
    """Independent reading of 'exactly once per output index': product of the external
    (non-internal) output axes sizes of each function, 1 without MapSpec."""
    counts = {}
    for fd in w["functions"]:
        ms = fd.get("mapspec")
        if not ms:
            counts[fd["name"]] = 1
            continue
        lhs, rhs = ms.split("->")
        out_axes = [a.strip() for a in rhs.split("]")[0].split("[")[1].split(",")]
        in_idx = set()
        for part in lhs.split("]"):
            if "[" in part:
                for a in part.split("[")[1].split(","):
                    a = a.strip()
                    if a != ":":
                        in_idx.add(a)
        n = 1
        for a in out_axes:
            if a in in_idx:
                n *= w["indices"][a]
        counts[fd["name"]] = n
    return counts


def generations(w):
    """Topological generation number of each function, computed from the workload itself."""
    produced = {}
    for fd in w["functions"]:
        for o in fd["outputs"]:
            produced[o] = fd["name"]
    gen = {}

    def g(name):
        if name in gen:
            return gen[name]
        fd = next(f for f in w["functions"] if f["name"] == name)
        deps = [produced[p] for p in fd["params"] if p in produced and p not in fd.get("bound", {})]
        gen[name] = 0 if not deps else 1 + max(g(d) for d in deps)
        return gen[name]

    for fd in w["functions"]:
        g(fd["name"])
    return gen


# ------------------------------------------------------------------ call-log oracles
def check_calls(w, calls, C0, *, exact=True):
    """Oracles 3 and 4 of C03.  Returns a list of (kind, detail)."""
    bad = []
    got = collections.Counter(c.key() for c in calls)
    if exact and got != C0:
        extra = list((got - C0).items())[:3]
        missing = list((C0 - got).items())[:3]
        bad.append(("call-multiset", {"extra": repr(extra), "missing": repr(missing)}))
    exp = expected_call_counts(w)
    per_fn = collections.Counter(c.fn for c in calls)
    if exact:
        for fn, n in exp.items():
            if per_fn.get(fn, 0) != n:
                bad.append(("call-count", {"fn": fn, "expected": n, "got": per_fn.get(fn, 0)}))
                break
    # (with empty axes or None values two different elements can legitimately have equal arguments: the
    # reference then has the same multiplicity, and only an excess over it is a double evaluation)
    dup = [k for k, n in got.items() if n > max(1, C0.get(k, 0))]
    if dup:
        bad.append(("call-twice", {"call": repr(dup[0])}))
    # 4: consumed values complete before the call starts, nothing masked in the arguments
    ends = {}
    for c in calls:
        ends.setdefault(c.key(), c.end)
    user_masked = {n for n, d in w["inputs"].items() if d.get("value") == "masked-view"}  # masked entries the caller passed himself
    for c in calls:
        for _p, a in c.args:
            if contains_masked(a) and not user_masked:  # (with user-supplied masked entries the token proves nothing)
                bad.append(("masked-argument", {"call": repr(c)}))
                break
            for t in subterms(a):
                base, _slot = term_base(t)
                e = ends.get((base, t.args))
                if e is None:
                    bad.append(("consumed-value-never-produced", {"call": repr(c), "term": repr(t)}))
                    break
                if e >= c.start:
                    bad.append(("started-before-input-complete", {"call": repr(c), "term": repr(t)}))
                    break
    return bad


# ------------------------------------------------------------------ configurations
# the shipped backends (twice, so that they stay the bulk) and a user-registered one (sim/userstorage.py)
STORAGES = ("file_array", "dict", "shared_memory_dict", "file_array", "dict", "shared_memory_dict", "eager_dict")


def gen_storage(tape, w, *, persisting_only=False):
    outs = all_outputs(w)
    kind = tape.pick(["uniform", "uniform", "mixed", "mixed-default"], "storage-kind")
    if kind == "uniform" or len(outs) < 2:
        return tape.pick(STORAGES, "storage")
    if kind == "mixed":
        return {_skey(w, o): tape.pick(STORAGES, "storage") for o in _skeys(w)}
    d = {"": tape.pick(STORAGES, "storage")}
    for o in _skeys(w):
        if tape.coin(0.5, "storage-override"):
            d[_skey(w, o)] = tape.pick(STORAGES, "storage")
    return d


def _skeys(w):
    return [fd["name"] for fd in w["functions"]]


def _skey(w, fname):
    fd = next(f for f in w["functions"] if f["name"] == fname)
    return fd["outputs"][0] if len(fd["outputs"]) == 1 else ",".join(fd["outputs"])


def storage_arg(storage):
    """JSON form -> pipefunc form (tuple keys for multi-output functions)."""
    if isinstance(storage, str):
        return storage
    return {(tuple(k.split(",")) if "," in k else k): v for k, v in storage.items()}


def storage_of(storage, w, out):
    """Storage id used for output `out`."""
    if isinstance(storage, str):
        return storage
    for fd in w["functions"]:
        if out in fd["outputs"]:
            key = fd["outputs"][0] if len(fd["outputs"]) == 1 else ",".join(fd["outputs"])
            return storage.get(key, storage.get(""))
    return None


def needs_folder(storage):
    vals = [storage] if isinstance(storage, str) else list(storage.values())
    return any(v != "dict" for v in vals)


def gen_executor(tape, w):
    kind = tape.pick(["sequential", "single", "single", "single", "dict", "dict-default", "default-pool"], "exec-kind")
    def one():
        return {"mode": tape.pick(["thread", "process"], "mode"), "workers": 1 + tape.choose(4, "workers"),
                "start": tape.pick(["fifo", "any"], "start"), "pickle_at": tape.pick(["submit", "start"], "pickle-at")}
    if kind == "sequential":
        return {"kind": kind}
    if kind == "single":
        return {"kind": kind, "ex": one()}
    if kind == "default-pool":
        e = one()
        e["mode"] = "process"
        return {"kind": kind, "ex": e}
    if kind == "dict":
        return {"kind": kind, "per": {_skey(w, f): one() for f in _skeys(w)}}
    d = {"": one()}
    for f in _skeys(w):
        if tape.coin(0.5, "exec-override"):
            d[_skey(w, f)] = one()
    return {"kind": "dict-default", "per": d}


def make_executor(sim, spec):
    """Returns (executor argument, parallel flag)."""
    kind = spec["kind"]
    if kind == "sequential":
        return None, False
    if kind == "single":
        return SimExecutor(sim, **spec["ex"]), True
    if kind == "default-pool":
        install_default_pool(sim, spec["ex"])
        return None, True
    d = {}
    for k, e in spec["per"].items():
        key = tuple(k.split(",")) if "," in k else k
        d[key] = SimExecutor(sim, **e, name=f"ex_{k.replace(',', '_') or 'default'}")
    return d, True


def simplify_workload(w):
    """Candidate smaller workloads (drop last function, shrink axis sizes)."""
    if len(w["functions"]) > 1:
        # drop a function nobody depends on
        used = {p for fd in w["functions"] for p in fd["params"]}
        for i in range(len(w["functions"]) - 1, -1, -1):
            fd = w["functions"][i]
            if not any(o in used for o in fd["outputs"]):
                c = copy.deepcopy(w)
                del c["functions"][i]
                _prune_inputs(c)
                yield c
    for a, n in w["indices"].items():
        if n > 1:
            c = copy.deepcopy(w)
            c["indices"][a] = n - 1
            for fd in c["functions"]:
                if fd.get("out_shape"):
                    ms = fd["mapspec"]
                    out_axes = [x.strip() for x in ms.split("->")[1].split("]")[0].split("[")[1].split(",")]
                    lhs = ms.split("->")[0]
                    internal = [x for x in out_axes if f"{x}]" not in lhs and f"{x}," not in lhs and f" {x}" not in lhs]
                    fd["out_shape"] = [c["indices"][x] for x in out_axes if x in _internal_axes(fd)]
            yield c


def _internal_axes(fd):
    ms = fd["mapspec"]
    lhs, rhs = ms.split("->")
    out_axes = [x.strip() for x in rhs.split("]")[0].split("[")[1].split(",")]
    in_idx = set()
    for part in lhs.split("]"):
        if "[" in part:
            for a in part.split("[")[1].split(","):
                in_idx.add(a.strip())
    return [a for a in out_axes if a not in in_idx]


def _prune_inputs(w):
    used = {p for fd in w["functions"] for p in fd["params"]}
    for k in list(w["inputs"]):
        if k not in used:
            del w["inputs"][k]


def stray_threads(before):
    """Non-daemon threads started since `before` (a set from threading.enumerate()) that are still alive and do not
    belong to the simulator: a process that keeps one can never exit, so a pool waiting for that worker hangs.
    They are stopped (profiler threads have a stop event) so that they do not outlive the case."""
    import threading
    import time as _t

    out = []
    for t in threading.enumerate():
        if t in before or t.daemon or not t.is_alive() or t.name.startswith("sim-") or t is threading.current_thread():
            continue
        t.join(0.05)  # a thread that is just finishing is not a leak
        if not t.is_alive():
            continue
        target = getattr(t, "_target", None)
        out.append(getattr(target, "__qualname__", None) or t.name)
        owner = getattr(target, "__self__", None)
        ev = getattr(owner, "stop_event", None)
        if ev is not None:
            ev.set()
            t.join(1.0)
    return sorted(out)
