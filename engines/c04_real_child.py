"""Real two-interpreter reload for C04 (run as a script, so that its classes live in `__main__`).

  c04_real_child.py run  <case.json> <folder> <expected.json>   process A: build, map, write what was produced/given
  c04_real_loader.py    <case.json> <folder> <expected.json>   process B (fresh interpreter, different script:
                                                               none of A's __main__ definitions exist): reload, compare

Values deliberately include instances of a class and functions defined in process A's `__main__` and (for
shared_memory_dict) real multiprocessing.Manager proxies: whatever lands in the run folder must be loadable
by an interpreter that has none of that.  Exit 0 = equal, 1 = mismatch (message on stdout), 3 = exception."""
from __future__ import annotations

import json
import os
import sys
import traceback
import warnings

VERIF = os.path.dirname(os.path.dirname(os.path.abspath(__file__)))
if VERIF not in sys.path:
    sys.path.insert(0, VERIF)


class Box:
    """A user-defined value type that exists only in the script that ran the map."""

    def __init__(self, v):
        self.v = v

    def __eq__(self, other):
        return hasattr(other, "v") and type(other).__name__ == "Box" and self.v == other.v

    def __hash__(self):
        return hash(("Box", self.v))

    def __repr__(self):
        return f"Box({self.v!r})"


class Wrapped:
    """User function defined in `__main__`: boxes the result of the importable term function."""

    def __init__(self, fn):
        self.fn = fn
        self.__name__ = fn.__name__
        self.__qualname__ = fn.__qualname__
        self.__signature__ = fn.__signature__
        self.__annotations__ = {}

    def __call__(self, **kw):
        r = self.fn(**kw)
        if isinstance(r, tuple):
            return tuple(Box(x) for x in r)
        if hasattr(r, "shape"):
            import numpy as np

            out = np.empty(r.shape, dtype=object)
            for idx in np.ndindex(*r.shape):
                out[idx] = Box(r[idx])
            return out
        return Box(r)


def show(v):
    """Deterministic text form of a loaded / produced value (Box prints through its own __repr__, which
    travels with the class when it is pickled by value)."""
    from sim.userfuncs import canon

    return repr(canon(v))


def build(case):
    from pipefunc import PipeFunc, Pipeline
    from sim.genpipe import array_defaults, build_inputs, map_kwargs
    from sim.userfuncs import Fn

    w = case["workload"]
    pfs = []
    for fd in w["functions"]:
        fn = Fn(fd["name"], fd["params"], defaults=fd.get("sig_defaults") or None, n_out=len(fd["outputs"]),
                out_shape=fd.get("out_shape"))
        out = fd["outputs"][0] if len(fd["outputs"]) == 1 else tuple(fd["outputs"])
        kw = {}
        if fd.get("out_shape") and w.get("internal_via", "pipefunc") == "pipefunc":
            kw["internal_shape"] = tuple(fd["out_shape"])
        defaults = {k: Box(v) for k, v in (fd.get("defaults") or {}).items()}
        for k, v in array_defaults(w, fd).items():
            defaults[k] = [Box(x) for x in v] if isinstance(v, list) else v
        pfs.append(PipeFunc(Wrapped(fn), out, mapspec=fd.get("mapspec"), defaults=defaults or None,
                            bound=dict(fd.get("bound") or {}) or None, **kw))
    inputs = {}
    for k, v in build_inputs(w).items():
        if isinstance(v, list):
            inputs[k] = [Box(x) for x in v]
        elif isinstance(v, str):
            inputs[k] = Box(v)
        else:
            inputs[k] = v
    return Pipeline(pfs), inputs, map_kwargs(w)


def role_run(case, folder, expected):
    from concurrent.futures import ThreadPoolExecutor

    from engines import common as C
    from sim.genpipe import all_outputs

    p, inputs, mkw = build(case)
    cfg = case["config"]
    kw = dict(run_folder=folder, storage=C.storage_arg(cfg["storage"]), persist_memory=True, **mkw)
    if cfg.get("real_pool") == "thread":
        with ThreadPoolExecutor(2) as ex:
            res = p.map(inputs, executor=ex, **kw)
    else:
        res = p.map(inputs, parallel=False, **kw)
    exp = {"outputs": {o: show(res[o].output) for o in all_outputs(case["workload"])},
           "inputs": {k: show(v) for k, v in inputs.items()},
           "defaults": {k: show(v) for k, v in p.defaults.items()}}
    with open(expected, "w") as f:
        json.dump(exp, f)
    return 0


def main(argv):
    role, case_path, folder, expected = argv
    warnings.simplefilter("ignore")
    from sim.bootstrap import boot

    boot()
    with open(case_path) as f:
        case = json.load(f)
    try:
        import contextlib
        import io

        buf = io.StringIO()
        with contextlib.redirect_stdout(buf):
            rc = role_run(case, folder, expected)
        return rc
    except Exception:  # noqa: BLE001
        print("EXCEPTION " + traceback.format_exc()[-1500:])
        return 3


if __name__ == "__main__":
    sys.exit(main(sys.argv[1:]))
