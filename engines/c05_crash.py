"""C05 — an interrupted map resumes to the uninterrupted result, redoing no stored work.

mode 'enumerate': for one sampled workload+config, every single interruption (crash before
each file-system event, torn variants of each raw write, a raise at every user call) is
executed, de-duplicated by post-crash tree digest.  mode 'plan': one explicit interruption
sequence (the replay form)."""
from __future__ import annotations

import collections
import copy
import os
import pickle
import warnings

from sim import fs as simfs
from sim import manager as simmanager
from sim.genpipe import all_outputs, build_inputs, build_pipeline, describe, gen_workload, map_kwargs
from sim.kernel import Deadlock, SimCrash, StepCap
from sim.tape import Tape, derive_seed
from sim.userfuncs import EXC_KINDS, Fault, FaultPlan, Term, canon, make_exc, term_base

from . import common as C

PID = "C05"
RULE = ("one case = random map pipeline x persisting storage (uniform/mixed) x sequential|SimExecutor(thread/process) "
        "[x pre-existing folder of a different run]; all single interruptions of the uninterrupted run are enumerated: "
        "process death before each file-system event (mkdir/open/raw write/unlink/rmdir/replace), torn variants "
        "(1, n/2, n-1 bytes) of each raw write, a raise at each user-function call; pairs (second interruption inside the resumed run) and "
        "two-episode plans (a later cleanup=True map into the same folder dies as well); about 12% of the cases run every attempt and the reference "
        "restricted by fixed_indices; defaults may be NumPy string arrays and mapped arrays may come from defaults. evaluations = interruption plans executed; distinct_nontrivial = "
        "distinct post-interruption file-system states (tree digest) in which at least one file of the run existed")
COMPONENTS = {
    "real": ["pipefunc run_map/prepare_run/RunInfo/_compare_to_previous_run_info", "FileArray/DictArray/SharedMemoryDictArray",
             "cloudpickle/json writers through io.BufferedWriter/TextIOWrapper", "shutil.rmtree (path-based)", "tmpfs"],
    "stub": ["raw file writes (SimRaw: event per write, torn prefixes)", "process death (SimCrash at seams)",
             "executor pools", "multiprocessing.Manager"],
    "not_run": ["power loss (no fsync in pipefunc; process death only)", "ENOSPC/EIO"],
}
ASSUMPTIONS = [
    "completed write() calls survive process death; bytes still in Python's user-space buffer are lost",
    "orphan workers finish at most their current task; queued tasks never start after the parent died",
    "'completely stored' is judged by an independent reader: every output file of the element exists and unpickles to "
    "the reference value",
]


# ------------------------------------------------------------------ generation
def gen_case(tape, tier):
    w = gen_workload(tape, max_funcs=4 if tier == "quick" else 5)
    storage = C.gen_storage(tape, w)
    ex_kind = tape.pick(["sequential", "sequential", "single", "single", "default-pool"], "exec-kind")
    executor = {"kind": "sequential"}
    if ex_kind == "default-pool":  # executor=None, parallel=True: pipefunc creates its own process pool per map
        executor = {"kind": "default-pool", "ex": {"mode": "process", "workers": 1 + tape.choose(3, "workers"),
                                                   "start": tape.pick(["fifo", "any"], "start"), "pickle_at": "submit"}}
    if ex_kind == "single":
        executor = {"kind": "single", "ex": {"mode": tape.pick(["thread", "process"], "mode"),
                                             "workers": 1 + tape.choose(3, "workers"),
                                             "start": tape.pick(["fifo", "any"], "start"), "pickle_at": "submit"}}
    cfg = {
        "storage": storage,
        "executor": executor,
        "preexisting": bool(tape.coin(0.2, "preexisting")),
        "buffer_size": tape.pick([None, None, 32, 256], "buffer-size"),
        "orphans": bool(tape.coin(0.5, "orphans")),
        "preempt": tape.pick([0.1, 0.4, 0.8], "preempt"),
        "pairs": bool(tape.coin(0.3 if tier == "thorough" else 0.25, "pairs")),
        "n_pairs": 60 if tier == "thorough" else 12,
        "max_plans": 120 if tier == "quick" else 400,
    }
    cfg["reorder_inputs"] = bool(tape.coin(0.3, "reorder-inputs"))
    cfg["entry"] = tape.pick(["map", "map", "map_async"], "entry")  # (map_async only where an executor is in use)
    cfg["mistaken_call"] = bool(tape.coin(0.15, "mistaken-call"))
    cfg["edit_results"] = bool(tape.coin(0.6, "edit-results"))
    cfg["upgraded"] = bool(tape.coin(0.1, "library-upgraded"))  # the resume is made by another release of the library
    if cfg["edit_results"] and tape.coin(0.5, "a-list-valued-function"):
        plain = [fd for fd in w["functions"] if len(fd["outputs"]) == 1 and fd.get("mapspec") and not fd["mapspec"].startswith("...")
                 and not any(fd.get(k) for k in ("out_shape", "none_mod", "result_like", "data_like", "seq_out"))]
        if plain:
            tape.pick(plain, "list-valued-fn")["seq_out"] = "list"  # something for the caller to edit in place
    if executor["kind"] != "default-pool" and tape.coin(0.2, "resume-with-default-pool"):
        # first tried without a process pool (debugging), resumed with executor=None, parallel=True
        cfg["resume_executor"] = {"kind": "default-pool", "ex": {"mode": "process", "workers": 2, "start": "fifo", "pickle_at": "submit"}}
    cfg["peek"] = bool(tape.coin(0.2, "peek"))
    axes = sorted(a for a, n in w["indices"].items() if n > 1)
    if axes and tape.coin(0.12, "fixed-indices"):
        # every attempt (and the reference) is the same map restricted to part of one axis; requests the tree
        # refuses (reduced axes) make the reference fail and the case is discarded
        a = tape.pick(axes, "fixed-axis")
        n = w["indices"][a]
        cfg["fixed"] = {a: tape.pick([tape.choose(n, "fixed-int"), {"slice": [0, max(1, n - 1), None]}, {"slice": [1, None, None]}], "fixed-what")}
    return {"mode": "enumerate", "workload": w, "config": cfg}


def _fixed_arg(cfg):
    f = cfg.get("fixed")
    if not f:
        return None
    return {a: (slice(*v["slice"]) if isinstance(v, dict) else v) for a, v in f.items()}


_ABSENT = ("<absent-in-reference>",)
# (without the falsy exception object: concurrent.futures.Future.result() itself swallows it, see C13)
_RAISE_KINDS = tuple(k for k in EXC_KINDS if k != "Problems")


def simplify(case):
    if case["mode"] != "plan":
        return
    for w in C.simplify_workload(case["workload"]):
        c = copy.deepcopy(case)
        c["workload"] = w
        if isinstance(c["config"]["storage"], dict):
            c["config"]["storage"] = next(iter(c["config"]["storage"].values()))
        yield c
    cfg = case["config"]
    if isinstance(cfg["storage"], dict):
        for s in sorted(set(cfg["storage"].values())):
            c = copy.deepcopy(case)
            c["config"]["storage"] = s
            yield c
    if cfg["executor"]["kind"] != "sequential":
        c = copy.deepcopy(case)
        c["config"]["executor"] = {"kind": "sequential"}
        yield c
    if cfg.get("preexisting"):
        c = copy.deepcopy(case)
        c["config"]["preexisting"] = False
        yield c
    if cfg.get("fixed"):
        c = copy.deepcopy(case)
        del c["config"]["fixed"]
        yield c
    if cfg.get("buffer_size"):
        c = copy.deepcopy(case)
        c["config"]["buffer_size"] = None
        yield c
    if len(case["plan"]) > 1:
        for i in range(len(case["plan"])):
            c = copy.deepcopy(case)
            del c["plan"][i]
            yield c
    for i, it in enumerate(case["plan"]):
        if it["kind"] == "crash":
            if it.get("torn") is not None:
                c = copy.deepcopy(case)
                c["plan"][i]["torn"] = None
                yield c
            if it["at"] > 1:
                for at in sorted({1, it["at"] // 2, it["at"] - 1}):
                    if at >= 1 and at != it["at"]:
                        c = copy.deepcopy(case)
                        c["plan"][i]["at"] = at
                        yield c


# ------------------------------------------------------------------ independent reader
def stored_elements(folder, w, ref):
    """Set of call keys (fn, args) whose every output file exists and unpickles to the reference
    value.  Reads the layout named in the property's anchors with plain pickle, no pipefunc code."""
    import cloudpickle  # noqa: F401 - registers reducers needed to unpickle

    import collections

    done = collections.Counter()  # a multiset: with empty axes or None values different elements have equal arguments
    out_dir = os.path.join(folder, "outputs")
    if not os.path.isdir(out_dir):
        return done
    cache = {}

    def read(path):
        if path in cache:
            return cache[path]
        try:
            with simfs.real_open(path, "rb") as f:
                v = pickle.load(f)
            cache[path] = (True, v)
        except BaseException:  # noqa: BLE001 - torn / missing / proxy of a dead manager
            cache[path] = (False, None)
        return cache[path]

    for fd in w["functions"]:
        outs = fd["outputs"]
        if not fd.get("mapspec") or fd["mapspec"].strip().startswith("..."):
            ok_all, key = True, None
            for o in outs:
                ok, v = read(os.path.join(out_dir, f"{o}.cloudpickle"))
                if not ok or canon(v) != ref.R0[o]:
                    ok_all = False
                    break
                key = key or _call_key(canon(v))
            if ok_all and key is not None:
                done[key] += 1
            continue
        n = len(ref.elements[outs[0]])
        for lin in range(n):
            ok_all, key = True, None
            for o in outs:
                exp = ref.elements[o][lin]
                if exp is _ABSENT:
                    ok_all = False  # not part of the (restricted) run at all
                    break
                got = None
                ok, v = read(os.path.join(out_dir, o, f"__{lin}__.pickle"))
                if ok:
                    got = canon(v)
                else:
                    ok2, d = read(os.path.join(out_dir, o, "dict_array.cloudpickle"))
                    if ok2:
                        try:
                            ext = ref.ext_index[o][lin]
                            if ext in d:
                                got = canon(d[ext])
                                ok = True
                        except BaseException:  # noqa: BLE001
                            ok = False
                if not ok or got != exp:
                    ok_all = False
                    break
                key = key or _call_key(exp)
            if ok_all and key is not None:
                done[key] += 1
    return done


def _call_key(v):
    """(function, args) of the call that produced canonical value v."""
    while isinstance(v, tuple) and v:
        v = v[0]
    if isinstance(v, Term):
        return (term_base(v)[0], v.args)
    return None


def reference(w, fixed=None):
    import numpy as np

    from pipefunc.map._storage_array._base import StorageBase

    ref = C.Reference(w)
    sim = C.new_sim(Tape(recorded=[]), preempt=0.0)
    try:
        with sim:
            p = build_pipeline(w)
            res = sim.kernel.run(lambda: p.map(build_inputs(w), parallel=False, storage="dict", fixed_indices=fixed, **map_kwargs(w)))
        ref.R0 = {o: canon(res[o].output) for o in all_outputs(w)}
        ref.calls = list(sim.calls)
        import collections

        ref.C0 = collections.Counter(c.key() for c in sim.calls)
        ref.elements, ref.ext_index = {}, {}
        ref.mismatch = C.independent_mismatch(w, ref.R0) if not fixed else None
        ref.L0 = dict(ref.R0)  # what load_outputs returns: the stored array (elements outside a restricted run are masked)
        for o in all_outputs(w):
            st = res[o].store
            if isinstance(st, StorageBase):
                if fixed:
                    ref.L0[o] = canon(st.to_array())
                ref.elements[o] = [canon(st.get_from_index(i)) if st.has_index(i) else _ABSENT for i in range(st.size)]
                ref.ext_index[o] = [tuple(int(x) for x in np.unravel_index(i, st.shape)) for i in range(st.size)]
    except Exception as e:  # noqa: BLE001
        ref.error = e
    return ref


# ------------------------------------------------------------------ execution of one attempt
class Attempt:
    def __init__(self):
        self.outcome = None  # 'ok' | 'crash' | 'raised' | 'error' | 'deadlock' | 'stepcap'
        self.exc = None
        self.res = None
        self.calls = []
        self.trace = []
        self.n_events = 0
        self.probes = {}
        self.crash_note = None
        self.digest = None
        self.steps = 0


def run_attempt(w, cfg, root, tape, *, attempt, cleanup, interruption=None, inputs_variant=None, new_process=True, keep=None,
                variant_call=False):
    at = Attempt()
    if new_process:
        C.reset_process_globals()  # the previous attempt's process is gone, and its module state with it
    sim = C.new_sim(tape, root, preempt=cfg.get("preempt", 0.3), fs_kwargs={"buffer_size": cfg.get("buffer_size")},
                    same_process=not new_process, step_cap=C.step_cap_for(w))
    sim.attempt = attempt
    fs = sim.fs
    fault = None
    if interruption is not None:
        if interruption["kind"] == "crash":
            fs.crash_at = interruption["at"]
            fs.torn_bytes = interruption.get("torn")
            fs.orphans = bool(cfg.get("orphans")) and cfg["executor"]["kind"] != "sequential"
        elif interruption["kind"] == "worker-death":
            fault = Fault(interruption["fn"], None, "WorkerDeath", attempt=attempt, nth=interruption["nth"])
        else:
            fault = Fault(interruption["fn"], None, interruption["exc"], attempt=attempt, nth=interruption["nth"])
    sim.faults = FaultPlan([fault] if fault else [])
    folder = os.path.join(root, "run")
    try:
        with sim:
            if keep is not None and not new_process and keep.get("p") is not None:
                p = keep["p"]  # the program is still running: it resumes with the Pipeline object it already has
                sim.probe("pipeline_object_reused_on_resume")
            else:
                p = build_pipeline(w, tags=cfg.get("tags"))
            if keep is not None:
                keep["p"] = p
            inputs = build_inputs(w)
            if inputs_variant:
                inputs = _variant_inputs(w, inputs)
            if cfg.get("reorder_inputs") and attempt > 0:
                inputs = dict(reversed(list(inputs.items())))  # the same inputs, written down in another order
            executor, parallel = C.make_executor(sim, cfg["executor"])
            k = sim.kernel

            def main():
                kw = dict(run_folder=folder, executor=executor, storage=C.storage_arg(cfg["storage"]), cleanup=cleanup,
                          fixed_indices=_fixed_arg(cfg), **map_kwargs(w))
                try:
                    if variant_call:
                        # a mistaken call in between: other inputs with cleanup=False must be refused, and refusing must
                        # leave the interrupted run exactly as it was
                        try:
                            p.map(_variant_inputs(w, inputs), parallel=parallel, **dict(kw, cleanup=False))
                        except ValueError:
                            sim.probe("mistaken_call_refused")
                        return None
                    if cfg.get("entry") == "map_async" and parallel:
                        from sim.loop import run_async

                        async def co():
                            return await p.map_async(inputs, **kw).task

                        return run_async(k, co)[0]
                    return p.map(inputs, parallel=parallel, **kw)
                except BaseException:
                    _drain(k, fs)
                    raise

            try:
                at.res = sim.kernel.run(main)
                at.outcome = "ok"
            except SimCrash:
                at.outcome = "crash"
            except Deadlock as e:
                at.outcome, at.exc = "deadlock", e
            except StepCap as e:
                at.outcome, at.exc = "stepcap", e
            except Exception as e:  # noqa: BLE001
                at.exc = e
                if fault is not None and fault.fired and fault.exc_kind == "WorkerDeath":
                    at.outcome = "worker-death" if type(e).__name__ == "BrokenProcessPool" else "error"
                else:
                    at.outcome = "raised" if fault is not None and fault.fired and _same_exc(e, fault.exc_kind) else "error"
    finally:
        C.restore_default_pool(sim)
        simmanager.shutdown_all(sim)  # the simulated process is gone: so are its manager processes
    at.calls = list(sim.calls)
    at.trace = list(fs.trace)
    at.n_events = fs.n
    at.probes = dict(sim.probes)
    at.crash_note = fs.crash_note
    at.digest = sim.kernel.digest()
    at.steps = sim.kernel.steps
    return at


def _other_release(folder, info):
    """The interrupted run was made by another release of the library: run_info.json says so (durable state written by
    the earlier process).  Stored work is stored work whichever release stored it."""
    import json

    path = os.path.join(folder, "run_info.json")
    try:
        with simfs.real_open(path) as f:
            d = json.load(f)
        d["pipefunc_version"] = "0.0.1.dev0+older"
        with simfs.real_open(path, "w") as f:
            json.dump(d, f, indent=4)
        info["probes"]["resumed_by_another_release"] = info["probes"].get("resumed_by_another_release", 0) + 1
    except (OSError, ValueError):
        pass  # no (complete) run_info.json yet


def _peek(root, folder, info):
    """Between the interruption and the resume somebody looks at the partial run - through a relative path, from
    inside the scratch directory - and the working directory is another one afterwards.  Reading must not change
    what the resume finds."""
    from pipefunc.map import RunInfo, load_outputs

    sim = C.new_sim(Tape(recorded=[]), root, preempt=0.0)

    def look():
        os.chdir(root)
        try:
            ri = RunInfo.load(os.path.relpath(folder))
            for o in sorted(ri.all_output_names)[:1]:
                load_outputs(o, run_folder=os.path.relpath(folder))
            info["probes"]["peeked_at_partial_run"] = info["probes"].get("peeked_at_partial_run", 0) + 1
        except Exception:  # noqa: BLE001 - nothing loadable there yet (or a partial array): not the reader's problem
            pass
        other = os.path.join(root, "elsewhere")
        os.makedirs(other, exist_ok=True)
        os.chdir(other)

    try:
        with sim:
            sim.kernel.run(look)
    finally:
        simmanager.shutdown_all(sim)


def _drain(k, fs):
    """After the parent stopped (death with orphans, or a user exception with an abandoned pool),
    let the tasks that can still run finish before the next attempt starts."""
    if k.dead_all:
        return
    me = k.current
    saved = me.proc
    me.proc = "harness"
    try:
        k.drain()
    except (Deadlock, StepCap, SimCrash):
        pass
    finally:
        me.proc = saved


def _same_exc(e, kind):
    m = make_exc(kind)
    if isinstance(m, StopIteration) and isinstance(e, RuntimeError) and isinstance(e.__cause__, StopIteration):
        e = e.__cause__  # asyncio cannot carry a StopIteration in a future: the async entry point chains it (as in C13)
    return type(e) is type(m) and e.args == m.args


def _variant_inputs(w, inputs):
    """Inputs of a *different* earlier run: same shapes, different values."""
    import numpy as np

    out = {}
    for k, v in inputs.items():
        if isinstance(v, np.ndarray):
            out[k] = v + 5000
        elif isinstance(v, list):
            out[k] = [f"old-{x}" for x in v]
        else:
            out[k] = f"old-{v}"
    return out


# ------------------------------------------------------------------ one plan
def run_plan(w, cfg, plan, ref, tape, *, seen_digests=None):
    cwd = os.getcwd()
    try:
        return _run_plan(w, cfg, plan, ref, tape, seen_digests=seen_digests)
    finally:
        os.chdir(cwd)  # a reader between the attempts may have moved into the plan's scratch directory


def _run_plan(w, cfg, plan, ref, tape, *, seen_digests=None):
    """Execute interruptions then a fault-free resume.  Returns (violations, info)."""
    viol = []
    info = {"probes": {}, "skipped": False, "tree_digests": [], "yields": 0}

    def V(oracle, kind, detail=None, signature=None):
        viol.append({"property": PID, "oracle": oracle, "kind": kind, "detail": detail, "signature": signature})

    with C.Scratch() as root, warnings.catch_warnings():
        warnings.simplefilter("ignore")
        folder = os.path.join(root, "run")
        if cfg.get("preexisting"):
            pre = run_attempt(w, dict(cfg, executor={"kind": "sequential"}), root, Tape(recorded=[]), attempt=-1,
                              cleanup=True, inputs_variant=True)
            if pre.outcome != "ok":
                info["skipped"] = True
                return viol, info
        # a plan may consist of several episodes: an interruption flagged `new_episode` belongs to a NEW
        # map(cleanup=True) into the same folder, started after the previous episode was resumed to completion
        episodes = [[]]
        for it in plan:
            if it.get("new_episode") and episodes[-1]:
                episodes.append([])
            episodes[-1].append(it)
        counter = [0]

        same_process = [False]
        keep = {}

        def episode(ep):
            stored_sets = []
            later_calls = []
            n_attempt = 0
            for it in ep:
                a = run_attempt(w, cfg, root, tape, attempt=counter[0] + n_attempt, cleanup=(n_attempt == 0), interruption=it,
                                new_process=same_process[0] is False, keep=keep)
                # after a user exception or the death of a pool worker the program is still alive: the caller resumes in
                # the same process (module state survives); after the death of the main process a new one starts
                same_process[0] = it["kind"] in ("raise", "worker-death")
                info["yields"] += a.steps
                for k2, v2 in a.probes.items():
                    info["probes"][k2] = info["probes"].get(k2, 0) + v2
                later_calls.append(a.calls)
                if it["kind"] == "crash" and a.outcome == "ok":
                    info["probes"]["crash_point_beyond_run"] = info["probes"].get("crash_point_beyond_run", 0) + 1
                elif it["kind"] == "crash" and a.outcome != "crash":
                    V("interrupted-attempt", f"ended-with:{a.outcome}:{type(a.exc).__name__}",
                      {"plan": plan, "exc": repr(a.exc)[:300], "note": a.crash_note}, _sig(a.exc, it, a))
                    return False
                elif it["kind"] == "worker-death" and a.outcome not in ("worker-death", "ok"):
                    V("interrupted-attempt", f"ended-with:{a.outcome}:{type(a.exc).__name__}",
                      {"plan": plan, "exc": repr(a.exc)[:300]}, _sig(a.exc, it, a))
                    return False
                elif it["kind"] == "raise" and a.outcome not in ("raised", "ok"):
                    V("interrupted-attempt", f"ended-with:{a.outcome}:{type(a.exc).__name__}",
                      {"plan": plan, "exc": repr(a.exc)[:300]}, _sig(a.exc, it, a))
                    return False
                if a.outcome == "crash":
                    info["probes"]["crash_in_write"] = info["probes"].get("crash_in_write", 0) + (
                        1 if a.crash_note and "write" in a.crash_note else 0)
                if a.outcome == "crash" and a.trace:
                    last_ev = a.trace[-1]
                    it["hit"] = ("torn-" if it.get("torn") and last_ev[1] == "write" else "") + f"{last_ev[1]}:{file_class(last_ev[2])}"
                    it["phase"] = "run" if any(e[1] in ("mkdir", "open", "write", "replace") for e in a.trace[:-1]) else "cleanup"
                if cfg.get("upgraded"):
                    _other_release(folder, info)
                if cfg.get("peek"):
                    _peek(root, folder, info)
                td = simfs.tree_digest(root)
                info["tree_digests"].append(td)
                stored_sets.append(stored_elements(folder, w, ref))
                if stored_sets[-1]:
                    info["probes"]["resume_with_stored_elements"] = info["probes"].get("resume_with_stored_elements", 0) + 1
                n_attempt += 1
            if seen_digests is not None and len(plan) == 1 and len(episodes) == 1 and info["tree_digests"]:
                key = (info["tree_digests"][-1],)
                if key in seen_digests:
                    info["skipped"] = True
                    info["probes"]["dedup_same_tree"] = 1
                    return False
                seen_digests.add(key)
            if cfg.get("mistaken_call") and ep:
                mc = run_attempt(w, dict(cfg, executor={"kind": "sequential"}), root, Tape(recorded=[]), attempt=counter[0] + n_attempt,
                                 cleanup=False, new_process=True, variant_call=True)
                same_process[0] = False
                if not mc.probes.get("mistaken_call_refused"):
                    # nothing of the interrupted run was there to compare with, so the other call simply ran: the folder is
                    # now that call's, and the rest of the plan has nothing to say
                    info["skipped"] = True
                    info["probes"]["mistaken_call_ran"] = 1
                    return False
                info["probes"]["mistaken_call_refused"] = info["probes"].get("mistaken_call_refused", 0) + 1
            fin = run_attempt(w, dict(cfg, executor=cfg["resume_executor"]) if cfg.get("resume_executor") else cfg, root, tape,
                              attempt=counter[0] + n_attempt, cleanup=False, new_process=same_process[0] is False, keep=keep)
            same_process[0] = False
            info["yields"] += fin.steps
            later_calls.append(fin.calls)
            info["final_digest"] = fin.digest
            last = ep[-1] if ep else None
            if fin.outcome != "ok":
                V("resume", f"resume-failed:{fin.outcome}:{type(fin.exc).__name__}",
                  {"plan": plan, "exc": repr(fin.exc)[:400]}, _sig(fin.exc, last, fin))
                return False
            # 2. results
            for o in all_outputs(w):
                got = canon(fin.res[o].output)
                if got != ref.R0[o]:
                    V("resume", "result-differs", {"plan": plan, "output": o, "got": repr(got)[:300], "ref": repr(ref.R0[o])[:300]},
                      _sig(None, last, fin))
                    break
            else:
                from pipefunc.map import load_outputs

                sim = C.new_sim(Tape(recorded=[]), root, preempt=0.0)

                def loads():
                    for o in all_outputs(w):
                        try:
                            got = canon(load_outputs(o, run_folder=folder))
                        except Exception as e:  # noqa: BLE001
                            V("resume", f"load-after-resume-raised:{type(e).__name__}", {"plan": plan, "output": o, "exc": repr(e)[:300]},
                              _sig(e, last, fin))
                            break
                        if got != ref.L0[o]:
                            V("resume", "loaded-differs", {"plan": plan, "output": o, "got": repr(got)[:300]}, _sig(None, last, fin))
                            break

                with sim:
                    sim.kernel.run(loads)
                simmanager.shutdown_all(sim)
            if cfg.get("edit_results") and not viol:
                # the caller post-processes what the resumed map returned - in place - and later maps the folder once more in
                # the same process: the stored data, not the caller's edits, are what that map returns
                import numpy as np

                edited = 0
                for o in all_outputs(w):
                    outv = fin.res[o].output
                    for el in (outv.reshape(-1) if isinstance(outv, np.ndarray) and outv.dtype == object else [outv]):
                        if isinstance(el, list):
                            el.append("<edited-by-the-caller>")
                            edited += 1
                if edited:
                    again = run_attempt(w, cfg, root, tape, attempt=counter[0] + n_attempt + 1, cleanup=False, new_process=False, keep=keep)
                    info["probes"]["results_edited_then_mapped_again"] = info["probes"].get("results_edited_then_mapped_again", 0) + 1
                    if again.outcome != "ok":
                        V("resume", f"map-after-edit-failed:{again.outcome}:{type(again.exc).__name__}", {"plan": plan, "exc": repr(again.exc)[:300]},
                          _sig(again.exc, last, again))
                    else:
                        for o in all_outputs(w):
                            if canon(again.res[o].output) != ref.R0[o]:
                                V("resume", "later-map-returns-the-callers-edits", {"plan": plan, "output": o,
                                  "got": repr(canon(again.res[o].output))[:300]}, _sig(None, last, again))
                                break
                        if again.calls and not viol:
                            V("no-redo", "stored-element-recomputed", {"plan": plan, "call": repr(again.calls[0]), "where": "map after edit"},
                              _sig(None, last, again))
            # 3. no stored work redone
            # (as a multiset: the attempts after the one that left n stored elements with arguments K behind may make
            # at most multiplicity(K) - n further calls with arguments K)
            for ai, S in enumerate(stored_sets):
                seen = collections.Counter()
                bad = None
                for bi in range(ai + 1, len(later_calls)):
                    for c in later_calls[bi]:
                        k2 = c.key()
                        if k2 in S:
                            seen[k2] += 1
                            if seen[k2] > max(0, ref.C0.get(k2, 0) - S[k2]):
                                bad = (c, bi)
                                break
                    if bad:
                        break
                if bad:
                    V("no-redo", "stored-element-recomputed", {"plan": plan, "call": repr(bad[0]), "stored_after_attempt": ai,
                                                               "recomputed_in_attempt": bad[1]}, _sig(None, last, fin))
                    break
            counter[0] += n_attempt + 1
            return True

        for ep in episodes:
            if not episode(ep) or viol:
                break
            if len(episodes) > 1:
                info["probes"]["episodes"] = info["probes"].get("episodes", 0) + 1
    return viol, info


def _sig(exc, interruption, attempt):
    """Signature used to match known findings: exception class, innermost pipefunc frame, what the
    interruption hit (event kind and file class)."""
    frame = None
    if exc is not None and exc.__traceback__ is not None:
        tb = exc.__traceback__
        while tb is not None:
            fn = tb.tb_frame.f_code.co_filename
            if "/pipefunc/" in fn:
                frame = f"{fn.split('/pipefunc/')[-1]}:{tb.tb_frame.f_code.co_name}"
            tb = tb.tb_next
    hit = phase = None
    if interruption is not None and interruption["kind"] == "crash":
        hit = interruption.get("hit")
        phase = interruption.get("phase")
    return {"exc": type(exc).__name__ if exc is not None else None, "frame": frame, "hit": hit, "phase": phase,
            "interruption": interruption["kind"] if interruption else None}


def file_class(rel):
    if rel.endswith(".tmp"):
        rel = rel[:-4]
    if rel.endswith("run_info.json"):
        return "run_info"
    if "/inputs" in rel or rel.endswith("inputs"):
        return "inputs"
    if "/defaults" in rel or rel.endswith("defaults"):
        return "defaults"
    if rel.endswith("dict_array.cloudpickle"):
        return "dict_array"
    if rel.endswith(".pickle"):
        return "element"
    if rel.endswith(".cloudpickle"):
        return "single_output"
    return "dir"


# ------------------------------------------------------------------ entry points
def run_case(case, exec_seed=None, exec_tape=None):
    cwd = os.getcwd()
    try:
        return _run_case(case, exec_seed, exec_tape)
    finally:
        os.chdir(cwd)  # readers between attempts move the working directory


def _run_case(case, exec_seed=None, exec_tape=None):
    C.begin_case()
    w, cfg = case["workload"], case["config"]
    out = {"violations": [], "probes": {}, "nontrivial": [], "evaluations": 0, "yields": 0, "sim_time": 0.0}
    ref = reference(w, _fixed_arg(cfg))
    if ref.error is not None:
        out["discarded"] = True
        out["exec_tape"] = []
        return out
    if ref.mismatch:
        out["violations"].append({"property": PID, "oracle": "independent", "signature": None,
                                  "kind": "sequential-run-differs-from-independent-reading-of-the-workload", "detail": ref.mismatch,
                                  "case": {"mode": "plan", "workload": w, "config": cfg, "plan": []}, "exec_tape": []})
        out["exec_tape"] = []
        out["evaluations"] = 1
        return out
    if case["mode"] == "plan":
        tape = Tape(exec_seed) if exec_tape is None else Tape(recorded=exec_tape)
        viol, info = run_plan(w, cfg, case["plan"], ref, tape)
        out["violations"] = viol
        out["exec_tape"] = tape.recorded()
        out["digest"] = info.get("final_digest")
        out["evaluations"] = 1
        out["probes"] = info["probes"]
        return out

    # ---- enumerate
    seed = exec_seed if exec_seed is not None else 0
    probes = {}

    def bump(d):
        for k, v in d.items():
            probes[k] = probes.get(k, 0) + v

    with C.Scratch() as root, warnings.catch_warnings():
        warnings.simplefilter("ignore")
        if cfg.get("preexisting"):
            run_attempt(w, dict(cfg, executor={"kind": "sequential"}), root, Tape(recorded=[]), attempt=-1, cleanup=True,
                        inputs_variant=True)
        base = run_attempt(w, cfg, root, Tape(derive_seed(seed, "base")), attempt=0, cleanup=True)
    if base.outcome != "ok" or any(canon(base.res[o].output) != ref.R0[o] for o in all_outputs(w)):
        out["violations"].append({"property": PID, "oracle": "baseline", "kind": f"uninterrupted-run:{base.outcome}",
                                  "detail": repr(base.exc)[:300], "signature": None,
                                  "case": {"mode": "plan", "workload": w, "config": cfg, "plan": []},
                                  "exec_tape": []})
        out["exec_tape"] = []
        return out
    plans = []
    for (n, kind, rel, nbytes, _th) in base.trace:
        hit = f"{kind}:{file_class(rel)}"
        if n >= 2:
            # "between or in the middle of any file-system operation": dying before the very first
            # operation leaves the disk as if the run had never started, so it is not a crash point
            plans.append([{"kind": "crash", "at": n, "torn": None, "hit": hit}])
        if kind == "write" and nbytes and nbytes > 1:
            for t in sorted({1, nbytes // 2, nbytes - 1}):
                if 1 <= t < nbytes:
                    plans.append([{"kind": "crash", "at": n, "torn": t, "hit": f"torn-{hit}"}])
    plans.append([{"kind": "crash", "at": base.n_events + 1, "torn": None, "hit": "after-last"}])
    per_fn = {}
    for c in base.calls:
        nth = per_fn.get(c.fn, 0)
        per_fn[c.fn] = nth + 1
        plans.append([{"kind": "raise", "fn": c.fn, "nth": nth, "exc": _RAISE_KINDS[(nth + len(c.fn)) % len(_RAISE_KINDS)]}])
        ex = cfg["executor"]
        if ex["kind"] in ("single", "default-pool") and ex["ex"]["mode"] == "process" and (nth + len(plans)) % 2 == 0:
            # the pool worker that runs this call dies (os._exit, OOM kill): the pool breaks, the program lives on
            plans.append([{"kind": "worker-death", "fn": c.fn, "nth": nth}])
    sel = Tape(derive_seed(seed, "select"))
    if len(plans) > cfg["max_plans"]:
        plans = sel.shuffle(plans, "plan-sample")[: cfg["max_plans"]]
        probes["plans_sampled_down"] = 1
    if cfg.get("pairs"):
        singles = [p for p in plans if p[0]["kind"] == "crash"]
        for _ in range(min(cfg.get("n_pairs", 60), len(singles))):
            a = sel.pick(singles, "pair-a")[0]
            b = {"kind": "crash", "at": 1 + sel.choose(max(1, base.n_events), "pair-b"), "torn": sel.pick([None, None, 1], "pair-torn"),
                 "hit": "second"}
            plans.append([a, b])
    # two-episode plans: a cleanup=True map dies, is resumed to completion, and a LATER cleanup=True map into the
    # same folder dies as well (during its cleanup of the first one) before it is resumed
    if cfg.get("episodes", True):
        crashes = [p0 for p0 in plans if len(p0) == 1 and p0[0]["kind"] == "crash"]
        early = [p0 for p0 in crashes if p0[0]["at"] <= 12] or crashes
        for _ in range(min(8, len(crashes))):
            a = dict(sel.pick(early if sel.coin(0.7, "ep-early") else crashes, "ep-a")[0])
            b = {"kind": "crash", "at": 2 + sel.choose(14, "ep-b"), "torn": None, "hit": "episode-2", "new_episode": True}
            plans.append([a, b])
    seen = set()
    nontrivial = set()
    for pi, plan in enumerate(plans):
        tape = Tape(derive_seed(seed, "plan", pi))
        viol, info = run_plan(w, cfg, plan, ref, tape, seen_digests=seen)
        bump(info["probes"])
        out["yields"] += info["yields"]
        if info["skipped"]:
            continue
        out["evaluations"] += 1
        pk = f"plan:{plan[0]['kind']}" + (":torn" if plan[0].get("torn") else "") + \
            (":two-episodes" if any(x.get("new_episode") for x in plan) else (":pair" if len(plan) > 1 else ""))
        probes[pk] = probes.get(pk, 0) + 1
        for td in info["tree_digests"]:
            nontrivial.add(td)
        for v in viol:
            v["case"] = {"mode": "plan", "workload": w, "config": cfg, "plan": plan}
            v["exec_tape"] = tape.recorded()
            out["violations"].append(v)
    for s in ([cfg["storage"]] if isinstance(cfg["storage"], str) else set(cfg["storage"].values())):
        probes[f"storage:{s}"] = 1
    probes[f"executor:{cfg['executor']['kind']}"] = 1
    if cfg.get("preexisting"):
        probes["preexisting_folder"] = 1
    if cfg.get("fixed"):
        probes["fixed_indices"] = 1
    if cfg.get("reorder_inputs"):
        probes["inputs_reordered_on_resume"] = 1
    out["probes"] = probes
    out["nontrivial"] = sorted(nontrivial)
    out["exec_tape"] = []
    out["digest"] = base.digest
    out["sample"] = {"workload": describe(w), "config": cfg, "events_of_uninterrupted_run": base.n_events,
                     "plans": len(plans), "first_events": [list(e[:4]) for e in base.trace[:8]],
                     "example_plans": plans[:3]}
    return out
