"""Process B of the real two-interpreter reload for C04: a different script than process A, so that nothing
defined in A's `__main__` (value classes, user functions) exists here.  See c04_real_child.py.
Exit 0 = equal, 1 = mismatch (message on stdout), 3 = exception."""
from __future__ import annotations

import json
import os
import sys
import traceback
import warnings

VERIF = os.path.dirname(os.path.dirname(os.path.abspath(__file__)))
if VERIF not in sys.path:
    sys.path.insert(0, VERIF)


def show(v):
    from sim.userfuncs import canon

    return repr(canon(v))


def role_load(case, folder, expected):
    from pipefunc.map import RunInfo, load_outputs

    with open(expected) as f:
        exp = json.load(f)
    for rep in range(2):  # repeated load
        for o, want in exp["outputs"].items():
            got = show(load_outputs(o, run_folder=folder))
            if got != want:
                print(f"MISMATCH output {o} (load #{rep}): got {got[:300]} expected {want[:300]}")
                return 1
        ri = RunInfo.load(folder)
        gi = {k: show(v) for k, v in ri.inputs.items()}
        if gi != exp["inputs"]:
            print(f"MISMATCH inputs: got {gi} expected {exp['inputs']}")
            return 1
        gd = {k: show(v) for k, v in ri.defaults.items()}
        if gd != exp["defaults"]:
            print(f"MISMATCH defaults: got {gd} expected {exp['defaults']}")
            return 1
    return 0




def main(argv):
    case_path, folder, expected = argv
    warnings.simplefilter("ignore")
    from sim.bootstrap import boot

    boot()
    with open(case_path) as f:
        case = json.load(f)
    try:
        return role_load(case, folder, expected)
    except Exception:  # noqa: BLE001
        print("EXCEPTION " + traceback.format_exc()[-1500:])
        return 3


if __name__ == "__main__":
    sys.exit(main(sys.argv[1:]))
