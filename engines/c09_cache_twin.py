"""C09 — caching never changes what a pipeline returns.

part 'A': call/mutation histories on a cached pipeline and its uncached twin (lock-step).
part 'B': a map with cached functions and repeated input values, shared small cache, simulated
process pool pre-empted at every manager RPC, compared with the uncached sequential run."""
from __future__ import annotations

import copy
import os
import warnings

from sim import manager as simmanager
from sim.genpipe import all_outputs, build_pipeline, describe, gen_dag, upstream
from sim.kernel import Deadlock, StepCap
from sim.tape import Tape
from sim.userfuncs import Fn, canon

from . import common as C

PID = "C09"
RULE = ("part A: random DAG (2-5 functions, shared parameters, defaults, bound values, tuple outputs) x subset of cached "
        "functions x cache type {simple, lru, hybrid, disk} with randomised small capacities (max_size 1-3, LRU front 1-2, "
        "shared on/off) x history of <=8 steps drawn from pipeline(output, **cut) over a 2-value domain (root-only cuts, "
        "cuts supplying intermediates, mixed), run(full_output=True), repeat-previous-call (every other one with the keyword arguments in the opposite order), update_defaults, "
        "update_bound (values incl. floats that differ in the tenth digit), function-level update_renames that swap two root "
        "arguments, replace, sequential map, cache files wiped by another user of the directory; 30% directed scenarios (call, "
        "update, repeat, update, repeat); Pipeline(lazy=True) for a quarter of the non-shared simple/lru cases; every step is "
        "executed on the cached pipeline and on an uncached twin. "
        "part B: map pipeline with repeated input values and cached functions, shared LRU/Hybrid or disk cache of small "
        "capacity, SimExecutor(process) pre-empted at every manager RPC. distinct_nontrivial = distinct (pipeline, cache "
        "config, history) digests in which at least one call was answered from the cache (A) or the cache was hit or "
        "evicted inside a worker (B)")
COMPONENTS = {
    "real": ["pipefunc Pipeline.__call__/run/_run, compute_cache_key/get_result_from_cache/update_cache",
             "update_defaults/update_bound/replace", "run_map + _get_or_set_cache", "LRUCache/HybridCache/SimpleCache/DiskCache",
             "to_hashable"],
    "stub": ["multiprocessing.Manager", "clocks read for HybridCache durations (SimClock)", "process pool"],
    "not_run": ["lazy pipelines with hybrid/disk/shared caches", "default DiskCache directory (an explicit cache_dir in the scratch root is always given)"],
}
ASSUMPTIONS = [
    "the twin is the same construction with caching off; a step on which the twin raises places no constraint",
    "the no-re-execution clause is asserted only for an immediately repeated root-argument call with no mutation in "
    "between and fewer distinct keys than the capacity (entry certainly resident)",
]


# ------------------------------------------------------------------ generation
def _needed(w, output, supplied):
    """(functions needed, root params needed) when `supplied` intermediates are given as kwargs."""
    prod = {o: fd for fd in w["functions"] for o in fd["outputs"]}
    fns, roots, seen = [], [], set()
    stack = [output]
    while stack:
        o = stack.pop()
        fd = prod[o]
        if fd["name"] in seen:
            continue
        seen.add(fd["name"])
        fns.append(fd["name"])
        for p in fd["params"]:
            if p in fd.get("bound", {}):
                continue
            if p in supplied:
                continue
            if p in prod:
                stack.append(p)
            elif p not in roots:
                roots.append(p)
    return fns, roots


def gen_case(tape, tier):
    if tape.coin(0.25, "part-B"):
        return gen_case_B(tape, tier)
    w = gen_dag(tape)
    fnames = [fd["name"] for fd in w["functions"]]
    cached = [f for f in fnames if tape.coin(0.6, "cached")] or [tape.pick(fnames, "cached1")]
    ctype = tape.pick(["simple", "lru", "lru", "hybrid", "disk"], "cache-type")
    cache = {"type": ctype, "max_size": 1 + tape.choose(3, "max"), "shared": bool(tape.coin(0.3, "shared")),
             "lru_size": 1 + tape.choose(2, "lru-size"), "with_lru": bool(tape.coin(0.6, "with-lru")),
             "disk_max": tape.pick([None, 1, 2, 3], "disk-max")}
    outs = all_outputs(w)
    prod = {o: fd for fd in w["functions"] for o in fd["outputs"]}
    ops = []
    ntag = 0
    for _ in range(2 + tape.choose(7, "nops")):
        k = tape.pick(["call", "call", "call", "call", "repeat", "run", "update_defaults", "update_bound", "replace", "map"]
                      + (["disk_wipe"] if ctype == "disk" else []), "op")
        if k == "disk_wipe":
            # somebody else who shares the cache directory (another pipeline / process) clears or evicts its files
            ops.append({"op": "disk_wipe"})
        elif k in ("call", "run"):
            o = tape.pick(outs, "output")
            ups = [x for x in outs if x != o and prod[x]["name"] in upstream(w, o) and x not in prod[o]["outputs"]]
            supplied = [x for x in ups if tape.coin(0.25, "supply")]
            _fns, roots = _needed(w, o, supplied)
            kw = {}
            for r in roots:
                has_default = any(r in fd["sig_defaults"] or r in fd["defaults"] for fd in w["functions"])
                if has_default and tape.coin(0.5, "omit-default"):
                    continue
                kw[r] = tape.choose(2, "value")
            for s in supplied:
                kw[s] = 2 + tape.choose(2, "value")
            ops.append({"op": k, "output": o, "kwargs": kw})
        elif k == "repeat":
            # every other repetition writes the keyword arguments in the opposite order: p(o, a=1, b=2) then p(o, b=2, a=1)
            # are calls with equal arguments (decided by the position, no draw: existing cases keep their tapes)
            ops.append({"op": "repeat", "reversed": True} if len(ops) % 2 else {"op": "repeat"})
        elif k in ("update_defaults", "update_bound"):
            fd = tape.pick(w["functions"], "fn")
            p = tape.pick(fd["params"], "param")
            if k == "update_defaults" and tape.coin(0.2, "mutable-default"):
                # the default is a list object which the caller later changes in place (no update_* call)
                ops.append({"op": "mutable_default", "fn": fd["name"], "param": p})
                ops.append({"op": "repeat"})
                ops.append({"op": "mutate_default_in_place", "fn": fd["name"], "param": p})
                ops.append({"op": "repeat"})
                continue
            if tape.coin(0.2, "on-a-copy"):
                # the update is made on a copy of the pipeline (Pipeline.copy()), which is then thrown away: the original
                # must not notice
                ops.append({"op": "update_on_copy", "kind": k, "fn": fd["name"], "param": p, "value": tape.choose(2, "value")})
                continue
            ops.append({"op": k, "fn": fd["name"], "param": p, "value": tape.choose(2, "value"),
                        # two values that differ only in the tenth digit (or inside a list): still two different values
                        "vkind": tape.pick(["str", "str", "float", "floatlist", "nan", "array"], "value-kind")})
        elif k == "replace":
            ntag += 1
            ops.append({"op": "replace", "fn": tape.pick(fnames, "fn"), "tag": f"'{ntag}"})
        else:
            ops.append({"op": "map", "values": {r: tape.choose(2, "value") for r, d in w["inputs"].items() if d["kind"] == "scalar"},
                        "entry": tape.pick(["map", "map", "map_async"], "map-entry"), "again": tape.pick(["map", "map_async"], "again")})
    if tape.coin(0.12, "bound-shadow-scenario"):
        # a root argument that is bound in a cached function but still consumed, unbound, by a function upstream of it: two
        # calls that differ only in that argument are two different computations
        cands = []
        for fd in w["functions"]:
            if fd["name"] not in cached:
                continue
            ups = [g for g in w["functions"] if g["name"] in upstream(w, fd["outputs"][0]) and g is not fd]
            for r in fd["params"]:
                if r in w["inputs"] and w["inputs"][r]["kind"] == "scalar" and any(r in g["params"] and r not in g.get("bound", {}) for g in ups):
                    cands.append((fd, r))
        if cands:
            fd, r = cands[tape.choose(len(cands), "shadow-pick")]
            _fns, roots = _needed(w, fd["outputs"][0], [])
            kw = {x: tape.choose(2, "value") for x in roots}
            kw[r] = 0
            ops = [{"op": "update_bound", "fn": fd["name"], "param": r, "value": 1, "vkind": "str"},
                   {"op": "call", "output": fd["outputs"][0], "kwargs": dict(kw)},
                   {"op": "call", "output": fd["outputs"][0], "kwargs": dict(kw, **{r: 1})},
                   {"op": "call", "output": fd["outputs"][0], "kwargs": dict(kw)}]
    if tape.coin(0.3, "mutation-scenario"):
        # directed histories: the same call before and after each of two updates of ONE parameter of a function the call
        # depends on (second value possibly almost equal to the first), optionally with the cache files gone in between
        calls = [o for o in ops if o["op"] in ("call", "run")]
        if calls:
            c0 = tape.pick(calls, "scenario-call")
            fns = upstream(w, c0["output"])
            fname = tape.pick(sorted(fns), "scenario-fn")
            fd = next(f for f in w["functions"] if f["name"] == fname)
            par = tape.pick(fd["params"], "scenario-param")
            kind = tape.pick(["update_bound", "update_bound", "update_defaults", "swap_renames"], "scenario-kind")
            vk = tape.pick(["str", "float", "floatlist", "nan", "array"], "scenario-vkind")
            v0 = tape.choose(2, "value")
            wipe = [{"op": "disk_wipe"}] if ctype == "disk" and tape.coin(0.5, "scenario-wipe") else []
            swappable = [q for q in fd["params"] if q in w["inputs"] and w["inputs"][q]["kind"] == "scalar"
                         and q not in fd.get("bound", {})]
            if kind == "swap_renames" and len(swappable) >= 2 and c0["kwargs"].get(swappable[0]) is not None \
                    and c0["kwargs"].get(swappable[1]) is not None:
                # the function-level renames of two root arguments are exchanged: same names, other wiring
                c0 = dict(c0, kwargs=dict(c0["kwargs"], **{swappable[0]: 0, swappable[1]: 1}))
                sw = {"op": "swap_renames", "fn": fd["name"], "a": swappable[0], "b": swappable[1]}
                ops = [c0, sw, {"op": "repeat"}, *wipe, sw, {"op": "repeat"}]
            else:
                if kind == "swap_renames":
                    kind = "update_bound"
                ops = [c0, {"op": kind, "fn": fd["name"], "param": par, "value": v0, "vkind": vk}, {"op": "repeat"}, *wipe,
                       {"op": kind, "fn": fd["name"], "param": par, "value": 1 - v0, "vkind": vk}, {"op": "repeat"}]
    roots = [n for n, d in w["inputs"].items() if d["kind"] == "scalar"]
    array_roots = [r for r in roots if tape.coin(0.2, "array-root")]
    # roots whose two values are NaN and a number, marked by a prefix so that every value lookup knows
    array_roots += ["nan:" + r for r in roots if r not in array_roots and tape.coin(0.12, "nan-root")]
    array_roots += ["od:" + r for r in roots if r not in array_roots and "nan:" + r not in array_roots and tape.coin(0.1, "odict-root")]
    array_roots += ["ma:" + r for r in roots if not any(p_ + r in array_roots for p_ in ("", "nan:", "od:")) and tape.coin(0.1, "masked-root")]
    case = {"part": "A", "workload": w, "cached": cached, "cache": cache, "ops": ops, "array_roots": array_roots}
    if ((ctype in ("lru", "hybrid") and cache["shared"]) or (ctype == "disk" and (cache["shared"] or not cache["with_lru"]))) \
            and tape.coin(0.25, "pipeline-roundtrip"):
        case["roundtrip"] = True  # both pipelines went through cloudpickle before use (possible with shared caches only)
    if ctype in ("simple", "lru") and not cache["shared"] and tape.coin(0.25, "lazy"):
        case["lazy"] = True  # Pipeline(lazy=True): calls return lazy values, evaluated by the caller
    return case


def gen_case_B(tape, tier):
    # map pipeline: f0 maps x over i (repeated values), optionally f1 maps f0's output, f2 reduces
    n = 2 + tape.choose(4, "n")
    nvals = 1 + tape.choose(2, "nvals")
    xs = [tape.choose(nvals, "xval") for _ in range(n)]
    chain = 1 + tape.choose(2, "chain")
    reduce_ = bool(tape.coin(0.5, "reduce"))
    ctype = tape.pick(["lru", "lru", "hybrid", "disk"], "cache-type")
    cache = {"type": ctype, "max_size": 1 + tape.choose(3, "max"), "shared": True, "lru_size": 1 + tape.choose(2, "lru-size"),
             "with_lru": bool(tape.coin(0.5, "with-lru")), "disk_max": tape.pick([None, 1, 2], "disk-max"),
             "cloudpickle": bool(tape.coin(0.5, "cp"))}
    cfg = {"workers": 1 + tape.choose(3, "workers"), "start": tape.pick(["fifo", "any"], "start"),
           "preempt": tape.pick([0.3, 0.6, 0.9], "preempt"), "storage": tape.pick(["dict", "file_array"], "storage"),
           "mode": tape.pick(["process", "process", "thread"], "mode")}
    # the cache was invalidated before the map (what every pipeline mutation does): its internals must still be
    # the shared ones afterwards
    cfg["clear_before_map"] = bool(tape.coin(0.3, "clear-before-map"))
    case = {"part": "B", "xs": xs, "chain": chain, "reduce": reduce_, "cache": cache, "config": cfg}
    if tape.coin(0.25, "resources"):
        case["resources"] = tape.pick(["map", "element"], "resources-scope")
    if tape.coin(0.4, "second-map"):
        # a second map on the same pipeline and cache: other inputs as a whole, shared element values
        case["xs2"] = [tape.choose(nvals, "xval") for _ in range(1 + tape.choose(5, "n2"))]
    return case


def simplify(case):
    if case["part"] == "B":
        if len(case["xs"]) > 2:
            for i in range(len(case["xs"])):
                c = copy.deepcopy(case)
                del c["xs"][i]
                yield c
        if case["chain"] > 1:
            c = copy.deepcopy(case)
            c["chain"] = 1
            yield c
        if case["reduce"]:
            c = copy.deepcopy(case)
            c["reduce"] = False
            yield c
        return
    for i in range(len(case["ops"])):
        c = copy.deepcopy(case)
        del c["ops"][i]
        if c["ops"]:
            yield c
    w = case["workload"]
    if len(w["functions"]) > 1:
        used = {p for fd in w["functions"] for p in fd["params"]}
        for i in range(len(w["functions"]) - 1, -1, -1):
            fd = w["functions"][i]
            if any(o in used for o in fd["outputs"]):
                continue
            c = copy.deepcopy(case)
            del c["workload"]["functions"][i]
            outs = set(all_outputs(c["workload"]))
            names = {f["name"] for f in c["workload"]["functions"]}
            c["ops"] = [o for o in c["ops"] if o.get("output", next(iter(outs))) in outs and o.get("fn", next(iter(names))) in names]
            c["cached"] = [f for f in c["cached"] if f in names]
            if c["ops"] and c["cached"]:
                yield c
    if len(case["cached"]) > 1:
        for f in case["cached"]:
            c = copy.deepcopy(case)
            c["cached"] = [x for x in case["cached"] if x != f]
            yield c
    if case["cache"]["type"] != "simple":
        c = copy.deepcopy(case)
        c["cache"]["type"] = "simple"
        yield c
    for r in case.get("array_roots", []):
        c = copy.deepcopy(case)
        c["array_roots"] = [x for x in case["array_roots"] if x != r]
        yield c
    for i, op in enumerate(case["ops"]):
        if op["op"] in ("call", "run") and len(op["kwargs"]) > 0:
            for k in list(op["kwargs"]):
                c = copy.deepcopy(case)
                del c["ops"][i]["kwargs"][k]
                yield c


# ------------------------------------------------------------------ construction
def cache_kwargs(cache, root):
    t = cache["type"]
    if t == "simple":
        return "simple", None
    if t == "lru":
        return "lru", {"max_size": cache["max_size"], "shared": cache["shared"]}
    if t == "hybrid":
        return "hybrid", {"max_size": cache["max_size"], "shared": cache["shared"]}
    return "disk", {"cache_dir": os.path.join(root, "diskcache"), "max_size": cache["disk_max"],
                    "with_lru_cache": cache["with_lru"], "lru_cache_size": cache["lru_size"], "lru_shared": cache["shared"]}


def capacity(cache):
    t = cache["type"]
    if t == "simple":
        return 10**6
    if t in ("lru", "hybrid"):
        return cache["max_size"]
    return cache["disk_max"] if cache["disk_max"] is not None else 10**6


def _val(name, i, array_roots=()):
    if "nan:" + name in array_roots and i < 2:
        return float("nan") if i == 0 else 1.5
    if "ma:" + name in array_roots and i < 2:
        import numpy as np

        # the same data, the same NUMBER of masked entries, at different positions
        return np.ma.MaskedArray([1.0, 2.0, 3.0], mask=[True, False, False] if i == 0 else [False, True, False])
    if "od:" + name in array_roots and i < 2:
        import collections

        items = [("a", 1), ("b", 2)]  # the same items in two orders: two different OrderedDicts
        return collections.OrderedDict(items if i == 0 else items[::-1])
    if name in array_roots and i < 2:
        # array-valued root argument: a square array and its transposed (non-contiguous) view - same shape and
        # dtype, different values, identical memory
        import numpy as np

        a = np.arange(4).reshape(2, 2) + 10 * (1 + sorted(array_roots).index(name))  # (position only makes them distinct)
        return a if i == 0 else a.T
    return f"{name}-{'ABCD'[i]}"


def _frame(e):
    tb = e.__traceback__
    frame = None
    while tb is not None:
        fn = tb.tb_frame.f_code.co_filename
        if "/pipefunc/" in fn:
            frame = f"{fn.split('/pipefunc/')[-1]}:{tb.tb_frame.f_code.co_name}"
        tb = tb.tb_next
    return frame


# ------------------------------------------------------------------ part A
def run_A(case, tape, clear_on_mutation=False):
    w, ops = case["workload"], case["ops"]
    viol, probes = [], {}
    hist_flags = {"supplied_intermediate_before": False, "mutated_before": set()}

    def V(oracle, kind, detail=None, sig=None):
        viol.append({"property": PID, "oracle": oracle, "kind": kind, "detail": detail,
                     "signature": dict({"part": "A"}, **(sig or {}))})

    with C.Scratch() as root, warnings.catch_warnings():
        warnings.simplefilter("ignore")
        sim = C.new_sim(tape, root, preempt=0.0, clock=True)

        def body():
            from pipefunc import PipeFunc

            ctype, ckw = cache_kwargs(case["cache"], root)
            try:
                lz = {"lazy": True} if case.get("lazy") else {}
                cached = build_pipeline(w, cached=set(case["cached"]), cache_type=ctype, cache_kwargs=ckw, **lz)
                twin = build_pipeline(w, **lz)
            except Exception:  # noqa: BLE001 - refused construction is not this property's business
                probes["discarded_construction"] = 1
                return
            if case.get("roundtrip"):
                import cloudpickle

                try:
                    cached, twin = cloudpickle.loads(cloudpickle.dumps(cached)), cloudpickle.loads(cloudpickle.dumps(twin))
                    probes["pipeline_roundtrip"] = 1
                except Exception:  # noqa: BLE001 - cannot be pickled in this configuration: use the objects as built
                    probes["pipeline_roundtrip_refused"] = 1
            if cached.cache is None:
                probes["no_cache_object"] = 1
            if case.get("lazy"):
                probes["lazy_pipeline"] = 1
            prev = None
            held = {}
            array_roots = tuple(case.get("array_roots", ()))
            distinct_keys = set()
            served = []  # what the cached pipeline answered so far (for the stale-cause diagnosis)
            epoch = [0]  # number of mutations so far
            map_served = []

            def tgt_name(o):
                return prod[o["output"]]["name"]
            prod = {o: fd for fd in w["functions"] for o in fd["outputs"]}
            fn_out = {fd["name"]: (fd["outputs"][0] if len(fd["outputs"]) == 1 else tuple(fd["outputs"])) for fd in w["functions"]}
            for i, op in enumerate(ops):
                kind = op["op"]
                if kind == "repeat":
                    if prev is None:
                        continue
                    op2, repeated = prev, True
                else:
                    op2, repeated = op, False
                kind = op2["op"]
                if kind in ("call", "run"):
                    kw = {k: _val(k, v, array_roots) for k, v in op2["kwargs"].items()}
                    if repeated and op.get("reversed") and len(kw) > 1:
                        kw = dict(reversed(list(kw.items())))
                        probes["repeat_with_other_keyword_order"] = probes.get("repeat_with_other_keyword_order", 0) + 1
                    supplies = any(k in prod for k in kw)

                    def invoke(p):
                        if kind == "call":
                            r = p(op2["output"], **kw)
                        else:
                            r = p.run(op2["output"], full_output=True, kwargs=dict(kw))
                        if case.get("lazy"):
                            from pipefunc.lazy import evaluate_lazy

                            r = evaluate_lazy(r)
                        return r

                    try:
                        exp = invoke(twin)
                        twin_ok = True
                    except Exception:  # noqa: BLE001
                        twin_ok = False
                    n0 = len(sim.calls)
                    keys_before = _cache_keys(cached) or set()
                    prev_resident_before = prev_resident[0]
                    try:
                        got = invoke(cached)
                        err = None
                    except (Deadlock, StepCap):
                        raise
                    except Exception as e:  # noqa: BLE001
                        err = e
                    new_calls = sim.calls[n0:]
                    cached_fn_calls = [c for c in new_calls if c.fn.split("'")[0] in case["cached"]]
                    sig = {"cache_type": case["cache"]["type"]}
                    rootkw = tuple(sorted((k2, v2) for k2, v2 in op2["kwargs"].items() if k2 not in prod))
                    if twin_ok:
                        probes["steps_compared"] = probes.get("steps_compared", 0) + 1
                        if err is not None:
                            V("twin", f"cached-raised:{type(err).__name__}", {"step": i, "op": op2, "exc": repr(err)[:300]},
                              dict(sig, frame=_frame(err)))
                            return
                        if _c(got) != _c(exp):
                            gv = canon(got[op2["output"]]) if kind == "run" else canon(got)
                            cause = None
                            for e in reversed(served):
                                if e["output"] == op2["output"] and e["rootkw"] == rootkw and e["value"] == gv:
                                    if e["epoch"] < epoch[0]:
                                        cause = "mutation"
                                    elif e["supplies"] != supplies:
                                        cause = "supplied-intermediate"
                                    break
                            V("twin", "value-differs", {"step": i, "op": op2, "got": repr(_c(got))[:300], "twin": repr(_c(exp))[:300],
                                                        "history": ops[: i + 1]}, sig)
                            return
                        served.append({"output": op2["output"], "rootkw": rootkw, "supplies": supplies, "epoch": epoch[0],
                                       "value": canon(got[op2["output"]]) if kind == "run" else canon(got)})
                        needed_cached = [f for f in _needed(w, op2["output"], set(kw))[0] if f in case["cached"]]
                        if needed_cached and len(cached_fn_calls) < len(needed_cached) and kind == "call":
                            probes["answered_from_cache"] = probes.get("answered_from_cache", 0) + 1
                        # clause 2: immediate repetition of a root-only call, entries certainly resident
                        tgt = prod[op2["output"]]["name"]
                        if repeated and not supplies and kind == "call" and prev_ok[0] and len(distinct_keys) < capacity(case["cache"]) \
                                and not hist_flags["mutated_since_prev"] and _still_resident(prev_resident_before, keys_before):
                            if tgt in case["cached"] and any(c.fn.split("'")[0] == tgt for c in new_calls):
                                V("no-reexecution", "resident-entry-recomputed", {"step": i, "op": op2, "calls": [repr(c) for c in new_calls][:4]}, sig)
                                return
                            probes["repeat_checked"] = probes.get("repeat_checked", 0) + 1
                    if not supplies and kind == "call":
                        for f in _needed(w, op2["output"], set())[0]:
                            if f in case["cached"]:
                                distinct_keys.add((f, tuple(sorted(op2["kwargs"].items()))))
                    # Is the target's entry certainly resident after this call?  Judged through the public `.cache`
                    # view of the in-memory caches (unknown for the disk cache): either this call added a key for the
                    # target, or it was answered entirely from the cache (no user call at all).
                    keys_now = _cache_keys(cached)
                    prev_resident[0] = None
                    if keys_now is not None and kind == "call" and not supplies and err is None and tgt_name(op2) in case["cached"]:
                        added = [k3 for k3 in keys_now if k3 not in keys_before and k3[0] == fn_out[tgt_name(op2)]]
                        if added:
                            prev_resident[0] = ("key", added[0])
                        elif not new_calls:
                            prev_resident[0] = ("hit", frozenset(keys_now))
                    prev_ok[0] = twin_ok
                    hist_flags["supplied_intermediate_before"] |= supplies
                    hist_flags["mutated_since_prev"] = False
                    prev = op2
                elif kind in ("update_defaults", "update_bound"):
                    val = _val(op2["param"], op2["value"]) + ("-dflt" if kind == "update_defaults" else "-bnd")
                    if op2.get("vkind") == "float":
                        val = 1.0 + 4e-10 * op2["value"]
                    elif op2.get("vkind") == "floatlist":
                        val = [2.0, 3.0 + 3e-10 * op2["value"]]
                    elif op2.get("vkind") == "nan":
                        val = float("nan") if op2["value"] == 0 else 2.5
                    elif op2.get("vkind") == "array":
                        import numpy as np

                        val = np.array([1, 2 + op2["value"]])
                    def mut(p, _is_cached, kind=kind, val=val):
                        getattr(p[fn_out[op2["fn"]]], kind)({op2["param"]: val})

                    st = _mutate_both(mut, twin, cached)
                    if st == "refused":
                        probes["mutation_refused_by_both"] = probes.get("mutation_refused_by_both", 0) + 1
                    if st == "asymmetric":
                        probes["discarded_asymmetric_mutation"] = 1
                        return
                    hist_flags["mutated_before"].add(kind)
                    hist_flags["mutated_since_prev"] = True
                    epoch[0] += 1
                    if clear_on_mutation and cached.cache is not None:
                        cached.cache.clear()
                    probes[kind] = probes.get(kind, 0) + 1
                elif kind == "mutable_default":
                    def mut(p, is_cached):
                        lst = ["item-0"]
                        held[(is_cached, op2["fn"], op2["param"])] = lst
                        p[fn_out[op2["fn"]]].update_defaults({op2["param"]: lst})

                    st = _mutate_both(mut, twin, cached)
                    if st == "asymmetric":
                        probes["discarded_asymmetric_mutation"] = 1
                        return
                    hist_flags["mutated_before"].add("update_defaults")
                    hist_flags["mutated_since_prev"] = True
                    epoch[0] += 1
                elif kind == "mutate_default_in_place":
                    for is_cached in (False, True):
                        lst = held.get((is_cached, op2["fn"], op2["param"]))
                        if lst is not None:
                            lst.append(f"item-{len(lst)}")  # the object the pipeline holds as default now has other contents
                    probes["default_mutated_in_place"] = probes.get("default_mutated_in_place", 0) + 1
                    hist_flags["mutated_since_prev"] = True
                elif kind == "update_on_copy":
                    val = _val(op2["param"], op2["value"]) + "-on-copy"
                    for p_ in (twin, cached):
                        try:
                            q = p_.copy()
                            getattr(q[fn_out[op2["fn"]]], op2["kind"])({op2["param"]: val})
                        except Exception:  # noqa: BLE001 - refused on the copy: the original is not involved
                            pass
                    probes["update_on_copy"] = probes.get("update_on_copy", 0) + 1
                elif kind == "swap_renames":
                    def mut(p, _is_cached):
                        p[fn_out[op2["fn"]]].update_renames({op2["a"]: op2["b"], op2["b"]: op2["a"]}, update_from="current")

                    st = _mutate_both(mut, twin, cached)
                    if st == "refused":
                        probes["mutation_refused_by_both"] = probes.get("mutation_refused_by_both", 0) + 1
                    if st == "asymmetric":
                        probes["discarded_asymmetric_mutation"] = 1
                        return
                    hist_flags["mutated_before"].add("swap_renames")
                    hist_flags["mutated_since_prev"] = True
                    epoch[0] += 1
                    if clear_on_mutation and cached.cache is not None:
                        cached.cache.clear()
                    probes["swap_renames"] = probes.get("swap_renames", 0) + 1
                elif kind == "disk_wipe":
                    d = os.path.join(root, "diskcache")
                    if os.path.isdir(d):
                        for fn_ in sorted(os.listdir(d)):
                            if fn_.endswith(".pkl"):
                                os.unlink(os.path.join(d, fn_))
                    probes["disk_wipe"] = probes.get("disk_wipe", 0) + 1
                    prev_resident[0] = None
                elif kind == "replace":
                    fd = next(f for f in w["functions"] if f["name"] == op2["fn"])
                    def mut(p, is_cached, fd=fd):
                        old = p[fn_out[op2["fn"]]]
                        fn = Fn(fd["name"], fd["params"], defaults=fd.get("sig_defaults") or None, n_out=len(fd["outputs"]),
                                tag=op2["tag"], none_mod=fd.get("none_mod", 0))
                        new = PipeFunc(fn, fn_out[op2["fn"]], defaults=dict(old._defaults) or None, bound=dict(old._bound) or None,
                                       cache=is_cached and fd["name"] in case["cached"])
                        p.replace(new)

                    st = _mutate_both(mut, twin, cached)
                    if st == "refused":
                        probes["mutation_refused_by_both"] = probes.get("mutation_refused_by_both", 0) + 1
                    if st == "asymmetric":
                        probes["discarded_asymmetric_mutation"] = 1
                        return
                    hist_flags["mutated_before"].add("replace")
                    hist_flags["mutated_since_prev"] = True
                    epoch[0] += 1
                    if clear_on_mutation and cached.cache is not None:
                        cached.cache.clear()
                    probes["replace"] = probes.get("replace", 0) + 1
                elif kind == "map":
                    inputs = {k: _val(k, v, array_roots) for k, v in op2["values"].items()}
                    try:
                        exp = twin.map(inputs, parallel=False, storage="dict")
                        exp = {o: canon(exp[o].output) for o in all_outputs(w)}
                    except Exception:  # noqa: BLE001
                        continue
                    def do_map(entry):
                        if entry == "map":
                            return cached.map(inputs, parallel=False, storage="dict")
                        from sim.loop import run_async

                        ex = C.SimExecutor(sim, mode="thread", workers=1)

                        async def co():
                            return await cached.map_async(inputs, executor=ex, storage="dict").task

                        return run_async(sim.kernel, co)[0]

                    entry = op2.get("entry", "map")
                    if entry != "map" and case["cache"]["type"] not in ("simple",) and not case["cache"].get("shared"):
                        entry = "map"  # (a pool needs a cache that can be shared)
                    try:
                        n_before = len(sim.calls)
                        got = do_map(entry)
                        got = {o: canon(got[o].output) for o in all_outputs(w)}
                        if case["cache"]["type"] == "simple" and not viol:
                            # an unbounded cache: every entry of the map just made is resident, so the same map again -
                            # through either entry point - executes no cached function
                            n_mid = len(sim.calls)
                            do_map("map" if entry != "map" else op2.get("again", "map"))
                            redone = [c for c in sim.calls[n_mid:] if c.fn in case["cached"]]
                            probes["map_repeated"] = probes.get("map_repeated", 0) + 1
                            if redone and n_mid > n_before:
                                V("no-reexecution", "repeated-map-recomputed-resident-entries",
                                  {"step": i, "entry": entry, "calls": [repr(c) for c in redone][:3]}, {"cache_type": "simple"})
                                return
                    except (Deadlock, StepCap):
                        raise
                    except Exception as e:  # noqa: BLE001
                        V("twin", f"cached-map-raised:{type(e).__name__}", {"step": i, "exc": repr(e)[:300]},
                          {"cache_type": case["cache"]["type"], "frame": _frame(e)})
                        return
                    probes["map_steps"] = probes.get("map_steps", 0) + 1
                    if got != exp:
                        V("twin", "map-value-differs", {"step": i, "got": repr(got)[:300], "twin": repr(exp)[:300], "history": ops[: i + 1]},
                          {"cache_type": case["cache"]["type"]})
                        return

        prev_ok = [False]
        prev_resident = [None]
        hist_flags["mutated_since_prev"] = False
        with sim:
            try:
                sim.kernel.run(body)
            except (Deadlock, StepCap) as e:
                V("liveness", type(e).__name__, str(e))
        simmanager.shutdown_all(sim)
    return viol, probes, sim


def _still_resident(marker, keys_before):
    if not marker:
        return False
    if marker[0] == "key":
        return marker[1] in keys_before
    return marker[1] == frozenset(keys_before)


def _cache_keys(p):
    """Keys currently held by an in-memory pipeline cache (public `.cache` view); None if unknown."""
    c = p.cache
    if c is None or type(c).__name__ == "DiskCache":
        return None
    try:
        return set(c.cache.keys())
    except Exception:  # noqa: BLE001
        return None


def _mutate_both(mut, twin, cached):
    """Apply a mutation to both pipelines.  A mutation that pipefunc refuses (raises) may still have been applied
    half-way (validation runs after the assignment); both pipelines went through the same code up to the raise, so
    they are still each other's twin and the history goes on: "refused".  Refused by one only: "asymmetric"."""
    errs = []
    for p_, is_cached in ((twin, False), (cached, True)):
        try:
            mut(p_, is_cached)
            errs.append(None)
        except Exception as e:  # noqa: BLE001
            errs.append(type(e).__name__)
    if errs[0] is None and errs[1] is None:
        return "ok"
    if errs[0] is not None and errs[0] == errs[1]:
        return "refused"
    return "asymmetric"


def _c(v):
    if isinstance(v, dict):
        return tuple(sorted((str(k), canon(x)) for k, x in v.items()))
    return canon(v)


# ------------------------------------------------------------------ part B
def build_B(case, cached):
    from pipefunc import PipeFunc, Pipeline

    if case.get("resources"):
        from sim.userfuncs import ResFn

        # the function receives resources evaluated from the WHOLE map inputs (resources_scope='map'): they are part
        # of what the result depends on
        pfs = [PipeFunc(Fn("f0", ["x", "res"]), "y0", mapspec="x[i] -> y0[i]", cache=cached, resources=ResFn("x"),
                        resources_variable="res", resources_scope=case["resources"])]
    else:
        pfs = [PipeFunc(Fn("f0", ["x"]), "y0", mapspec="x[i] -> y0[i]", cache=cached)]
    for c in range(1, case["chain"]):
        pfs.append(PipeFunc(Fn(f"f{c}", [f"y{c - 1}"]), f"y{c}", mapspec=f"y{c - 1}[i] -> y{c}[i]", cache=cached))
    if case["reduce"]:
        pfs.append(PipeFunc(Fn("red", [f"y{case['chain'] - 1}"]), "r", cache=cached))
    return pfs, Pipeline


def run_B(case, tape):
    cfg, cache = case["config"], case["cache"]
    viol, probes = [], {}

    def V(oracle, kind, detail=None, sig=None):
        viol.append({"property": PID, "oracle": oracle, "kind": kind, "detail": detail,
                     "signature": dict({"part": "B", "cache_type": cache["type"]}, **(sig or {}))})

    all_inputs = [{"x": [f"x-{v}" for v in case["xs"]]}] + ([{"x": [f"x-{v}" for v in case["xs2"]]}] if case.get("xs2") else [])
    outs = [f"y{c}" for c in range(case["chain"])] + (["r"] if case["reduce"] else [])
    # uncached sequential reference (one per map)
    refs = []
    for inputs in all_inputs:
        ref_sim = C.new_sim(Tape(recorded=[]), preempt=0.0)
        with ref_sim, warnings.catch_warnings():
            warnings.simplefilter("ignore")
            pfs, Pipeline = build_B(case, False)
            p0 = Pipeline(pfs)
            r0 = ref_sim.kernel.run(lambda: p0.map(inputs, parallel=False, storage="dict"))
            counts0 = {}
            for c in ref_sim.calls:
                counts0[c.fn] = counts0.get(c.fn, 0) + 1
            refs.append(({o: canon(r0[o].output) for o in outs}, counts0))
    R0, ref_counts = refs[0]
    inputs = all_inputs[0]
    with C.Scratch() as root, warnings.catch_warnings():
        warnings.simplefilter("ignore")
        sim = C.new_sim(tape, root, preempt=cfg["preempt"], clock=True)
        sim.fs.read_yields = cache["type"] == "disk"
        res = None
        second = []
        with sim:
            def body():
                ctype, ckw = cache_kwargs(cache, root)
                if ctype in ("lru", "hybrid"):
                    ckw["allow_cloudpickle"] = cache.get("cloudpickle", True)
                pfs, Pipeline = build_B(case, True)
                p = Pipeline(pfs, cache_type=ctype, cache_kwargs=ckw)
                if cfg.get("clear_before_map") and p.cache is not None:
                    p.cache.clear()
                ex = C.SimExecutor(sim, mode=cfg["mode"], workers=cfg["workers"], start=cfg["start"])
                r1 = p.map(inputs, run_folder=os.path.join(root, "run"), executor=ex, storage=cfg["storage"])
                n1 = len(sim.calls)
                if len(all_inputs) > 1:
                    r2 = p.map(all_inputs[1], run_folder=os.path.join(root, "run2"), executor=ex, storage=cfg["storage"])
                    second.append(({o: canon(r2[o].output) for o in outs}, n1))
                return r1

            try:
                res = sim.kernel.run(body)
            except Deadlock as e:
                V("liveness", "deadlock", str(e))
            except StepCap as e:
                V("liveness", "no-progress", str(e))
            except Exception as e:  # noqa: BLE001
                V("twin", f"cached-parallel-map-raised:{type(e).__name__}", repr(e)[:300], {"frame": _frame(e)})
        simmanager.shutdown_all(sim)
        if res is not None:
            for o in outs:
                got = canon(res[o].output)
                if got != R0[o]:
                    V("twin", "parallel-map-value-differs", {"output": o, "got": repr(got)[:300], "ref": repr(R0[o])[:300]})
                    break
            if second and not viol:
                R2, _n1 = second[0]
                for o in outs:
                    if R2[o] != refs[1][0][o]:
                        V("twin", "second-parallel-map-value-differs", {"output": o, "got": repr(R2[o])[:300], "ref": repr(refs[1][0][o])[:300]})
                        break
                probes["second_map"] = 1
            counts = {}
            for c in (sim.calls[: second[0][1]] if second else sim.calls):
                counts[c.fn] = counts.get(c.fn, 0) + 1
            for f, n in counts.items():
                if n > ref_counts.get(f, 0):
                    V("calls", "more-calls-than-uncached", {"fn": f, "cached": n, "uncached": ref_counts.get(f, 0)})
                    break
            if sum(counts.values()) < sum(ref_counts.values()):
                probes["cache_hit_in_worker"] = 1
    return viol, probes, sim


def run_case(case, exec_seed=None, exec_tape=None):
    C.begin_case()
    tape = Tape(exec_seed) if exec_tape is None else Tape(recorded=exec_tape)
    if case["part"] == "A":
        viol, probes, sim = run_A(case, tape)
        if viol and any(o["op"] in ("update_defaults", "update_bound", "replace", "swap_renames") for o in case["ops"]):
            # executable predicate for the known finding "mutations do not invalidate cached results": does the
            # violation vanish when the harness clears the cache at every mutation (the hypothetical repair)?
            C.begin_case()
            try:
                v2, _p2, _s2 = run_A(case, Tape(recorded=tape.recorded()), clear_on_mutation=True)
            except Exception:  # noqa: BLE001 - the hypothetical repair itself fails (e.g. clear() raises): no answer
                v2 = None
            for v in viol:
                gone = None if v2 is None else not any((x["oracle"], x["kind"]) == (v["oracle"], v["kind"]) for x in v2)
                v["signature"]["vanishes_with_cache_clear_on_mutation"] = gone
    else:
        viol, probes, sim = run_B(case, tape)
    probes[f"part:{case['part']}"] = 1
    probes[f"cache:{case['cache']['type']}"] = 1
    for k2, v2 in sim.probes.items():
        probes[k2] = probes.get(k2, 0) + v2
    out = {"violations": viol, "probes": probes, "evaluations": 1, "yields": sim.kernel.steps,
           "sim_time": float(sim.clock.now) if sim.clock else 0.0, "exec_tape": tape.recorded(), "digest": sim.kernel.digest(),
           "nontrivial": []}
    if probes.get("answered_from_cache") or probes.get("cache_hit_in_worker"):
        out["nontrivial"] = [C.digest_of([case, sim.kernel.sched_digest()])]
    out["sample"] = case if case["part"] == "B" else {"workload": describe(case["workload"]), "cached": case["cached"],
                                                       "cache": case["cache"], "ops": case["ops"]}
    return out
