"""C04 — results stored in a run folder reload exactly, from any (simulated) process."""
from __future__ import annotations

import copy
import gc
import os
import warnings

from sim import manager as simmanager
from sim.genpipe import all_outputs, build_inputs, build_pipeline, describe, gen_workload, internal_shapes, map_kwargs
from sim.kernel import Deadlock, StepCap
from sim.tape import Tape
from sim.userfuncs import canon

from . import c05_crash as c05
from . import c06_parts as c06
from . import common as C

PID = "C04"
RULE = ("one case = random map pipeline x persisting storage (file_array | dict | shared_memory_dict with "
        "persist_memory=True; uniform and per-output mixes) x sequential|simulated-parallel run x folder prehistory (empty | an earlier attempt with other or the same inputs that "
        "died at a tape-chosen file-system event | a complete run with other inputs followed by cleanup=True | a "
        "partial fixed_indices run with the same inputs followed by cleanup=False), followed by a history "
        "of 1-6 loads (load_outputs of 1-3 names, RunInfo.load, load_xarray_dataset with/without intermediates), each "
        "in the process that ran the map or after a simulated process exit (all manager processes shut down, all "
        "objects dropped, directory order re-permuted), possibly several successive fresh processes; a quarter of the cases "
        "spell the run folder relatively or absolutely per call and move the working directory between loads; after the run "
        "every stored file must carry the permissions the umask grants; the dataset built from the results in hand is a second baseline "
        "for the folder loader; in a fifth of the cases a peer process loads the same run during every load of the history. "
        "distinct_nontrivial = distinct (workload, storage, load history) digests containing at least one load after "
        "a process exit")
COMPONENTS = {
    "real": ["pipefunc run_map, RunInfo.dump/load/init_store, load_outputs, load_xarray_dataset (xarray, pandas)",
             "FileArray/DictArray/SharedMemoryDictArray persist/load", "cloudpickle/json on tmpfs"],
    "stub": ["multiprocessing.Manager (FakeManager: a proxy of a dead manager raises ConnectionRefusedError, the failure "
             "class of a real proxy whose server process is gone)", "process exit/restart", "executor pools",
             "directory listing order"],
    "not_run": ["zarr storages"],
    "real_children": "about 2% of the cases run the map in a real child interpreter (script with values of a class defined "
                     "in its __main__, real multiprocessing.Manager for shared_memory_dict, optional real ThreadPoolExecutor) "
                     "and reload in a second, fresh child interpreter",
}
ASSUMPTIONS = [
    "a fresh process shares the Python module state of the harness interpreter; only durable files and live manager "
    "processes distinguish it (pipefunc keeps no other cross-call state for loading)",
    "load_xarray_dataset is judged relative to the same call made in the process that ran the map: it must not start "
    "failing, and every output it exposes must equal the run's output (dimension labelling is C19)",
]


def gen_case(tape, tier):
    if tape.coin(0.0015 if tier == "quick" else 0.0004, "big-output"):
        # one mapped output with thousands of elements: more than any batch size somebody might read them in
        n = tape.pick([4100, 4160, 8200], "big-n")
        w = {"indices": {"i": n}, "inputs": {"x0": {"axes": ["i"], "kind": "ndarray", "base": 100}},
             "functions": [{"name": "f0", "params": ["x0"], "mapspec": "x0[i] -> o0[i]", "out_shape": None, "defaults": {}, "bound": {},
                            "sig_defaults": {}, "outputs": ["o0"]}], "internal_via": "pipefunc"}
        return {"workload": w, "config": {"storage": "file_array", "executor": {"kind": "sequential"}, "preempt": 0.1, "pre": "none",
                                          "pre_same_process": False, "big": True},
                "ops": [{"op": "outputs", "names": ["o0"], "mutate": False}, {"op": "exit"}, {"op": "outputs", "names": ["o0"], "mutate": False}]}
    w = gen_workload(tape)
    if tape.coin(0.3, "descending-inputs"):
        for d in w["inputs"].values():
            if d["kind"] in ("list", "ndarray") and not d.get("elements"):
                d["descending"] = True
    storage = C.gen_storage(tape, w)
    ex = tape.pick(["sequential", "sequential", "single"], "exec")
    executor = {"kind": "sequential"}
    if ex == "single":
        executor = {"kind": "single", "ex": {"mode": tape.pick(["thread", "process"], "mode"),
                                             "workers": 1 + tape.choose(3, "workers"), "start": "fifo", "pickle_at": "submit"}}
    outs = all_outputs(w)
    ops = []
    exited = False
    spellings = bool(tape.coin(0.25, "spellings"))
    for _ in range(1 + tape.choose(6, "nops")):
        if not exited or tape.coin(0.3, "exit-again"):
            if tape.coin(0.6 if not exited else 1.0, "exit"):
                ops.append({"op": "exit"})
                exited = True
        if spellings and tape.coin(0.4, "chdir"):
            ops.append({"op": "chdir", "to": tape.pick(["root", "sub1", "sub2"], "chdir-to")})
        kind = tape.pick(["outputs", "outputs", "run_info", "xarray"], "op")
        via = {"via": tape.pick(["abs", "rel"], "via")} if spellings else {}
        if kind == "outputs":
            names = [tape.pick(outs, "name") for _ in range(1 + tape.choose(3, "nnames"))]
            # mutate: the caller modifies the loaded object in place afterwards; later loads must not see that
            ops.append({"op": "outputs", "names": names, "mutate": bool(tape.coin(0.3, "mutate-loaded")), **via})
        elif kind == "run_info":
            ops.append({"op": "run_info", **via})
        else:
            ops.append({"op": "xarray", "intermediate": bool(tape.coin(0.5, "intermediate")), **via})
    cfg = {"storage": storage, "executor": executor, "preempt": tape.pick([0.1, 0.5], "preempt")}
    if tape.coin(0.15, "reader-thread"):
        # while the map starts, another thread of the same process is busy reading an OLDER run in another folder
        cfg["reader_thread"] = True
    if spellings:
        # the run folder is named by a relative or an absolute path, and the working directory moves between loads
        cfg["run_via"] = tape.pick(["abs", "rel"], "run-via")
    # what was in the folder before the run whose results are reloaded
    pre = tape.pick(["none", "none", "none", "crashed-other", "complete-other", "partial-same", "crashed-same"], "prehistory")
    if pre == "partial-same":
        ind, _red = c06.independent_axes(w)
        if ind:
            a = tape.pick(ind, "pre-axis")
            cfg["pre_fixed"] = {a: tape.choose(w["indices"][a], "pre-index")}
        else:
            pre = "none"
    if pre.startswith("crashed"):
        cfg["pre_crash_at"] = 2 + tape.choose(60, "pre-crash-at")
        cfg["pre_other_version"] = bool(pre == "crashed-same" and tape.coin(0.5, "other-version"))
    cfg["pre"] = pre
    # an earlier *process* left the folder behind (process-wide caches are gone) or the same long-lived process
    # (a notebook) ran the earlier map itself (they are still there)
    cfg["pre_same_process"] = pre in ("complete-other", "partial-same") and bool(tape.coin(0.5, "pre-same-process"))
    # a small share of the cases is executed for real: map in one child interpreter (run as a script, values
    # of a class defined in its __main__, real Manager processes), reload in a second, fresh child interpreter
    if tape.coin(0.006 if tier == "quick" else 0.003, "real-children"):
        cfg["real_children"] = True
        cfg["real_pool"] = tape.pick(["none", "thread"], "real-pool")
        cfg["pre"] = "none"
        for fd in w["functions"]:
            fd.pop("none_mod", None)
    if not cfg.get("real_children") and tape.coin(0.2, "peer-loader"):
        # "from any process": a second client (another process: an analysis script, a dashboard) reads the same finished
        # run while each load of the history is under way; file reads and writes of both are pre-emption points
        cfg["peer_loader"] = True
    return {"workload": w, "config": cfg, "ops": ops}


def simplify(case):
    if case["config"].get("real_children"):
        for w in C.simplify_workload(case["workload"]):
            c = copy.deepcopy(case)
            c["workload"] = w
            if isinstance(c["config"]["storage"], dict):
                c["config"]["storage"] = next(iter(c["config"]["storage"].values()))
            c["ops"] = []
            yield c
        return
    for w in C.simplify_workload(case["workload"]):
        c = copy.deepcopy(case)
        c["workload"] = w
        if isinstance(c["config"]["storage"], dict):
            c["config"]["storage"] = next(iter(c["config"]["storage"].values()))
        if c["config"].get("pre") == "partial-same":
            ind, _r = c06.independent_axes(w)
            if not set(c["config"].get("pre_fixed", {})) <= set(ind) or any(
                    v >= w["indices"][a] for a, v in c["config"]["pre_fixed"].items()):
                c["config"]["pre"] = "none"
        outs = set(all_outputs(w))
        ops = []
        for op in c["ops"]:
            if op["op"] == "outputs":
                names = [n for n in op["names"] if n in outs]
                if not names:
                    continue
                op = dict(op, names=names)
            ops.append(op)
        c["ops"] = ops
        if any(o["op"] != "exit" for o in ops):
            yield c
    cfg = case["config"]
    if isinstance(cfg["storage"], dict):
        for s in sorted(set(cfg["storage"].values())):
            c = copy.deepcopy(case)
            c["config"]["storage"] = s
            yield c
    if cfg["executor"]["kind"] != "sequential":
        c = copy.deepcopy(case)
        c["config"]["executor"] = {"kind": "sequential"}
        yield c
    if cfg.get("pre", "none") != "none":
        c = copy.deepcopy(case)
        c["config"]["pre"] = "none"
        yield c
    for i in range(len(case["ops"])):
        c = copy.deepcopy(case)
        del c["ops"][i]
        if any(o["op"] != "exit" for o in c["ops"]):
            yield c
    for i, op in enumerate(case["ops"]):
        if op["op"] == "outputs" and len(op["names"]) > 1:
            for j in range(len(op["names"])):
                c = copy.deepcopy(case)
                del c["ops"][i]["names"][j]
                yield c


def _expected_run_info(w, cfg, p, R_shapes):
    """Independent expectation for the fields RunInfo.load must round-trip."""
    exp = {"all_output_names": set(all_outputs(w)), "mapspecs_as_strings": list(p.mapspecs_as_strings),
           "storage": C.storage_arg(cfg["storage"])}
    ish = internal_shapes(w)
    exp["internal_shapes"] = ish or None
    shapes, masks = {}, {}
    for fd in w["functions"]:
        ms = fd.get("mapspec")
        if not ms:
            continue
        lhs, rhs = ms.split("->")
        out_axes = [a.strip() for a in rhs.split("]")[0].split("[")[1].split(",")]
        in_idx = set()
        for part in lhs.split("]"):
            if "[" in part:
                for a in part.split("[")[1].split(","):
                    in_idx.add(a.strip())
        shape = tuple(w["indices"][a] for a in out_axes)
        mask = tuple(a in in_idx for a in out_axes)
        key = fd["outputs"][0] if len(fd["outputs"]) == 1 else tuple(fd["outputs"])
        shapes[key] = shape
        masks[key] = mask
        if isinstance(key, tuple):
            for o in key:
                shapes[o] = shape
                masks[o] = mask
    for name, d in w["inputs"].items():
        if d["kind"] in ("list", "ndarray") and any(f"{name}[" in (fd.get("mapspec") or "") for fd in w["functions"]):
            shapes[name] = tuple(w["indices"][a] for a in d["axes"])
            masks[name] = (True,) * len(d["axes"])
    exp["shapes"], exp["shape_masks"] = shapes, masks
    return exp


def run_real(case):
    """Process A (script: map) and process B (fresh interpreter: reload) as real child interpreters."""
    import json
    import subprocess
    import sys

    out = {"violations": [], "probes": {"real_children": 1}, "nontrivial": [], "evaluations": 1, "yields": 0,
           "sim_time": 0.0, "exec_tape": [], "digest": None}
    child = os.path.join(os.path.dirname(os.path.abspath(__file__)), "c04_real_child.py")
    env = dict(os.environ, PYTHONHASHSEED="0", PYTHONDONTWRITEBYTECODE="1")
    with C.Scratch() as root:
        cpath, folder, epath = os.path.join(root, "case.json"), os.path.join(root, "run"), os.path.join(root, "expected.json")
        with open(cpath, "w") as f:
            json.dump(case, f)
        a = subprocess.run([sys.executable, child, "run", cpath, folder, epath], env=env, capture_output=True, text=True, timeout=300)
        if a.returncode != 0 or not os.path.exists(epath):
            out["discarded"] = True  # the tree refused the workload (or the run itself failed): not a reload question
            out["probes"]["real_run_refused"] = 1
            return out
        loader = os.path.join(os.path.dirname(os.path.abspath(__file__)), "c04_real_loader.py")
        b = subprocess.run([sys.executable, loader, cpath, folder, epath], env=env, capture_output=True, text=True, timeout=300)
        out["digest"] = C.digest_of([a.returncode, b.returncode, b.stdout[-200:]])
        if b.returncode != 0:
            kind = "mismatch" if b.returncode == 1 else "raised"
            last = (b.stdout.strip().splitlines() or b.stderr.strip().splitlines() or ["?"])[-1]
            out["violations"].append({"property": PID, "oracle": "real-fresh-interpreter", "kind": f"reload-{kind}",
                                      "detail": {"stdout": b.stdout[-600:], "stderr": b.stderr[-300:]},
                                      "signature": {"error": last[:80]}})
    w, cfg = case["workload"], case["config"]
    for s in ([cfg["storage"]] if isinstance(cfg["storage"], str) else set(cfg["storage"].values())):
        out["probes"][f"real_storage:{s}"] = 1
    out["nontrivial"] = [C.digest_of([describe(w), cfg["storage"], "real"])]
    out["sample"] = {"workload": describe(w), "config": cfg, "real_children": True}
    return out


def run_case(case, exec_seed=None, exec_tape=None):
    cwd = os.getcwd()
    try:
        return _run_case(case, exec_seed, exec_tape)
    finally:
        os.chdir(cwd)  # cases with path spellings move the working directory around


def _run_case(case, exec_seed=None, exec_tape=None):
    C.begin_case()
    if case["config"].get("real_children"):
        return run_real(case)
    w, cfg, ops = case["workload"], case["config"], case["ops"]
    out = {"violations": [], "probes": {}, "nontrivial": [], "evaluations": 1, "yields": 0, "sim_time": 0.0}
    tape = Tape(exec_seed) if exec_tape is None else Tape(recorded=exec_tape)
    viol = out["violations"]
    probes = {}

    def V(oracle, kind, detail=None):
        viol.append({"property": PID, "oracle": oracle, "kind": kind, "detail": detail, "signature": None})

    from pipefunc._utils import _cached_load
    from pipefunc.map import RunInfo, load_outputs, load_xarray_dataset

    with C.Scratch() as root, warnings.catch_warnings():
        warnings.simplefilter("ignore")
        folder = os.path.join(root, "run")
        state = {"sim": None, "fresh": False, "nproc": 0}
        truth = {}
        if cfg.get("run_via"):
            os.chdir(root)
            probes["path_spellings"] = 1

        def F(via):
            """The run folder as the caller spells it."""
            return os.path.relpath(folder) if via == "rel" else folder

        def do_run():
            p = build_pipeline(w)
            inputs = build_inputs(w)
            sim = state["sim"]
            executor, parallel = C.make_executor(sim, cfg["executor"])
            truth["inputs"] = {k: canon(v) for k, v in inputs.items()}  # what the caller gave, recorded BEFORE the call
            res = p.map(inputs, run_folder=F(cfg.get("run_via")), parallel=parallel, executor=executor,
                        storage=C.storage_arg(cfg["storage"]), persist_memory=True,
                        cleanup=cfg.get("pre", "none") in ("none", "complete-other"), **map_kwargs(w))
            truth["R"] = {o: canon(res[o].output) for o in all_outputs(w)}
            if {k: canon(v) for k, v in inputs.items()} != truth["inputs"]:
                V("run_info", "map-changed-the-callers-inputs", {"now": repr(inputs)[:300]})
            truth["defaults"] = {k: canon(v) for k, v in p.defaults.items()}
            truth["run_info"] = _expected_run_info(w, cfg, p, None)
            # same-process xarray baseline (relative oracle for the xarray loader)
            truth["xr"] = {}
            for inter in sorted({o["intermediate"] for o in ops if o["op"] == "xarray"}):
                try:
                    ds = load_xarray_dataset(run_folder=folder, load_intermediate=inter)
                    truth["xr"][inter] = ("ok", _ds_values(ds, w))
                    _check_coords(ds, w, truth["inputs"], V, probes, "same-process")
                except Exception as e:  # noqa: BLE001
                    truth["xr"][inter] = ("raised", type(e).__name__)
                # a second reading that does not go through the folder: the dataset built from the results in hand.  If
                # that one exists, the loader has no excuse (a refusal "in both" would otherwise hide a loader that
                # feeds itself the wrong inputs in every process alike), and the two must carry the same values.
                try:
                    from pipefunc.map.xarray import xarray_dataset_from_results

                    ds2 = xarray_dataset_from_results(inputs, res, p, load_intermediate=inter)
                    v2 = _ds_values(ds2, w)
                except Exception:  # noqa: BLE001
                    continue
                probes["xarray_from_results_baseline"] = probes.get("xarray_from_results_baseline", 0) + 1
                if truth["xr"][inter][0] == "raised":
                    V("xarray", f"raised:{truth['xr'][inter][1]}:although-the-dataset-from-results-exists", {"intermediate": inter})
                    return
                if truth["xr"][inter][1] != v2:
                    V("xarray", "folder-dataset-differs-from-results-dataset", {"folder": repr(truth["xr"][inter][1])[:300],
                                                                                "results": repr(v2)[:300]})
                    return
                _check_coords(ds2, w, truth["inputs"], V, probes, "from-results")

        def do_op(op):
            if op["op"] == "chdir":
                d = root if op["to"] == "root" else os.path.join(root, op["to"])
                os.makedirs(d, exist_ok=True)
                os.chdir(d)
                probes["chdir"] = probes.get("chdir", 0) + 1
                return
            if not cfg.get("peer_loader") or op["op"] not in ("outputs", "run_info", "xarray"):
                _do_op(op, F(op.get("via")))
                return
            kern = state["sim"].kernel
            peer = {"done": False, "exc": None}

            def peer_loader():
                try:
                    ri = RunInfo.load(folder)
                    got = load_outputs(all_outputs(w)[0], run_folder=folder)
                    if {k: canon(v) for k, v in ri.inputs.items()} != truth["inputs"] or canon(got) != truth["R"][all_outputs(w)[0]]:
                        peer["exc"] = ValueError("the peer loader read other values than the run produced")
                except (Deadlock, StepCap):
                    raise
                except Exception as e:  # noqa: BLE001
                    peer["exc"] = e
                finally:
                    peer["done"] = True

            ry = state["sim"].fs.read_yields
            state["sim"].fs.read_yields = True
            kern.spawn(peer_loader, "peer-loader", proc="peer")
            probes["peer_loader"] = probes.get("peer_loader", 0) + 1
            try:
                _do_op(op, F(op.get("via")))
            finally:
                kern.block_until(lambda: peer["done"], "join-peer")
                state["sim"].fs.read_yields = ry
            if peer["exc"] is not None and not viol:
                V("concurrent", f"peer-loader-raised:{type(peer['exc']).__name__}", {"op": op["op"], "exc": repr(peer["exc"])[:300]})

        def _do_op(op, folder):
            where = "fresh" if state["fresh"] else "same"
            probes[f"load:{op['op']}:{where}"] = probes.get(f"load:{op['op']}:{where}", 0) + 1
            if op["op"] == "outputs":
                try:
                    got = load_outputs(*op["names"], run_folder=folder)
                except Exception as e:  # noqa: BLE001
                    V("load_outputs", f"raised:{type(e).__name__}:{where}", {"names": op["names"], "exc": repr(e)[:300]})
                    return
                if len(op["names"]) == 1:
                    got = [got]
                for n, g in zip(op["names"], got):
                    if canon(g) != truth["R"][n]:
                        V("load_outputs", f"value-differs:{where}", {"name": n, "got": repr(canon(g))[:300],
                                                                      "expected": repr(truth["R"][n])[:300]})
                        return
                if op.get("mutate"):
                    import numpy as np

                    for g in got:
                        try:
                            if isinstance(g, np.ndarray) and g.size:
                                g.reshape(-1)[0] = "<mutated-by-caller>"
                            elif isinstance(g, list) and g:
                                g[0] = "<mutated-by-caller>"
                        except Exception:  # noqa: BLE001 - read-only or odd shapes: nothing to mutate
                            pass
                    probes["loaded_value_mutated"] = probes.get("loaded_value_mutated", 0) + 1
            elif op["op"] == "run_info":
                try:
                    ri = RunInfo.load(folder)
                except Exception as e:  # noqa: BLE001
                    V("run_info", f"raised:{type(e).__name__}:{where}", repr(e)[:300])
                    return
                if {k: canon(v) for k, v in ri.inputs.items()} != truth["inputs"]:
                    V("run_info", f"inputs-differ:{where}", {"got": repr(ri.inputs)[:300]})
                    return
                if {k: canon(v) for k, v in ri.defaults.items()} != truth["defaults"]:
                    V("run_info", f"defaults-differ:{where}", {"got": repr(ri.defaults)[:300], "exp": repr(truth["defaults"])[:300]})
                    return
                exp = truth["run_info"]
                for field in ("all_output_names", "mapspecs_as_strings", "storage", "internal_shapes", "shapes", "shape_masks"):
                    g = getattr(ri, field)
                    if field == "internal_shapes" and g is not None:
                        g = {k: (tuple(v) if isinstance(v, list) else v) for k, v in g.items()}  # as given: an int stays an int
                    if field in ("shapes", "shape_masks"):
                        g = {k: tuple(v) for k, v in g.items()}
                    if g != exp[field]:
                        V("run_info", f"field-differs:{field}:{where}", {"got": repr(g)[:300], "expected": repr(exp[field])[:300]})
                        return
            else:
                inter = op["intermediate"]
                base = truth["xr"][inter]
                try:
                    ds = load_xarray_dataset(run_folder=folder, load_intermediate=inter)
                except Exception as e:  # noqa: BLE001
                    if base[0] == "ok":
                        V("xarray", f"raised:{type(e).__name__}:{where}", repr(e)[:300])
                    else:
                        probes["xarray_refused_in_both"] = probes.get("xarray_refused_in_both", 0) + 1
                    return
                if base[0] != "ok":
                    return
                vals = _ds_values(ds, w)
                if vals != base[1]:
                    V("xarray", f"dataset-differs-from-same-process:{where}", {"got": repr(vals)[:300], "base": repr(base[1])[:300]})
                    return
                for n, v in vals.items():
                    if v != truth["R"][n]:
                        V("xarray", f"value-differs:{where}", {"name": n, "got": repr(v)[:300], "expected": repr(truth["R"][n])[:300]})
                        return
                _check_coords(ds, w, truth["inputs"], V, probes, where)

        def new_process():
            sim = C.new_sim(tape, root, preempt=cfg["preempt"], step_cap=2_000_000 if cfg.get("big") else 20000)
            state["sim"] = sim
            state["nproc"] += 1
            return sim

        def exit_process():
            sim = state["sim"]
            simmanager.shutdown_all(sim)
            C.restore_default_pool(sim)
            state["sim"] = None
            _cached_load.cache_clear()
            state["fresh"] = True
            probes["process_exit"] = probes.get("process_exit", 0) + 1

        # ---- prehistory: what an earlier process left in the folder
        pre = cfg.get("pre", "none")
        if pre != "none":
            try:
                with C.new_sim(Tape(recorded=[]), preempt=0.0):
                    build_pipeline(w)  # a workload the tree refuses to construct is not this property's business
            except Exception:  # noqa: BLE001
                out["discarded"] = True
                out["exec_tape"] = tape.recorded()
                return out
            pcfg = dict(cfg, executor={"kind": "sequential"}, orphans=False)
            if pre == "crashed-same" and cfg.get("pre_other_version"):
                # the attempt that died ran an earlier version of the user's functions (same names, other results): what it
                # stored completely stays, what the run recomputes must replace every output of that element
                pcfg["tags"] = {fd["name"]: "'old" for fd in w["functions"]}
                probes["pre_other_function_version"] = 1
                # aim the death at the moment between the stores of the outputs of one element of a multi-output function
                firsts = [fd["outputs"][0] for fd in w["functions"] if len(fd["outputs"]) > 1 and fd.get("mapspec")]
                if firsts:
                    with C.Scratch() as dry:
                        base = c05.run_attempt(w, pcfg, dry, Tape(recorded=[]), attempt=-1, cleanup=True)
                    cands = [n + 1 for (n, kind, rel, _nb, _th) in base.trace
                             if kind == "replace" and any(f"outputs/{o}/" in rel for o in firsts)]
                    if cands:
                        cfg = dict(cfg, pre_crash_at=cands[tape.choose(len(cands), "aimed-crash")])
                        probes["pre_crash_aimed_between_outputs"] = 1
            if pre in ("crashed-other", "crashed-same"):
                a0 = c05.run_attempt(w, pcfg, root, tape, attempt=-1, cleanup=True,
                                     interruption={"kind": "crash", "at": cfg["pre_crash_at"], "torn": None},
                                     inputs_variant=(pre == "crashed-other"))
                probes["pre_crashed" if a0.outcome == "crash" else "pre_completed"] = 1
            elif pre == "complete-other":
                c05.run_attempt(w, pcfg, root, tape, attempt=-1, cleanup=True, inputs_variant=True)
            else:
                simp = C.new_sim(tape, root, preempt=0.0)
                with simp:
                    def partial():
                        p0 = build_pipeline(w)
                        p0.map(build_inputs(w), run_folder=folder, parallel=False, storage=C.storage_arg(cfg["storage"]),
                               persist_memory=True, fixed_indices=dict(cfg["pre_fixed"]), **map_kwargs(w))
                    try:
                        simp.kernel.run(partial)
                        probes["pre_partial_run"] = 1
                    except Exception:  # noqa: BLE001 - refused partial run: nothing left behind that matters
                        probes["pre_partial_refused"] = 1
                simmanager.shutdown_all(simp)
            probes[f"pre:{pre}"] = 1
            if cfg.get("pre_same_process"):
                probes["pre_same_process"] = 1
            else:
                _cached_load.cache_clear()  # an earlier process: its process-wide lru cache died with it

        # ---- process A: run, then loads in the same process until the first exit
        idx = 0
        sim = new_process()
        run_err = []

        def procA():
            nonlocal idx
            reader_done = [True]
            if cfg.get("reader_thread"):
                old = os.path.join(root, "older-run")
                try:
                    build_pipeline(w).map(build_inputs(w), run_folder=old, parallel=False, storage="file_array", **map_kwargs(w))
                except Exception:  # noqa: BLE001 - refused by the tree: no older run to read, fine
                    old = None
                if old is not None:
                    reader_done[0] = False
                    kern = state["sim"].kernel

                    def reader():
                        try:
                            for _ in range(2):
                                RunInfo.load(old)
                                load_outputs(all_outputs(w)[0], run_folder=old)
                        except Exception:  # noqa: BLE001 - the reader's own trouble is not what is being judged
                            pass
                        finally:
                            reader_done[0] = True

                    state["sim"].fs.read_yields = True  # file reads are pre-emption points while two threads are at work
                    kern.spawn(reader, "reader", proc=kern.current.proc)
                    probes["reader_thread"] = 1
            try:
                do_run()
                if not reader_done[0]:
                    state["sim"].kernel.block_until(lambda: reader_done[0], "join-reader")
            except (Deadlock, StepCap) as e:
                run_err.append(e)
                return
            except Exception as e:  # noqa: BLE001 - refused by the tree: not this property's business
                run_err.append(e)
                return
            _check_modes()
            while idx < len(ops) and ops[idx]["op"] != "exit" and not viol:
                do_op(ops[idx])
                idx += 1

        def _check_modes():
            """'From any process' includes a process of another user who shares the folder: whatever the run stored must
            carry the permissions the umask grants (a file created 0600 under umask 022 cannot be reloaded by anybody else)."""
            um = os.umask(0)
            os.umask(um)
            want_f, want_d = 0o666 & ~um, 0o777 & ~um
            for dp, dns, fns in os.walk(folder):
                for n in sorted(dns) + sorted(fns):
                    full = os.path.join(dp, n)
                    try:
                        mode = os.stat(full).st_mode & 0o777
                    except OSError:
                        continue
                    want = want_d if os.path.isdir(full) else want_f
                    if mode & want != want:
                        V("permissions", "stored-file-narrower-than-umask",
                          {"file": simfs_rel(full, folder), "mode": oct(mode), "umask": oct(um)})
                        return
            probes["modes_checked"] = 1

        try:
            with sim:
                sim.kernel.run(procA)
            out["yields"] += sim.kernel.steps
            digests = [sim.kernel.digest()]
        finally:
            exit_process()
        if run_err:
            out["discarded"] = True
            out["exec_tape"] = tape.recorded()
            return out
        while idx < len(ops) and not viol:
            if ops[idx]["op"] == "exit":
                idx += 1
                continue
            sim = new_process()

            def procB():
                nonlocal idx
                while idx < len(ops) and ops[idx]["op"] != "exit" and not viol:
                    do_op(ops[idx])
                    idx += 1

            try:
                with sim:
                    sim.kernel.run(procB)
                out["yields"] += sim.kernel.steps
                digests.append(sim.kernel.digest())
            finally:
                exit_process()
    for s in ([cfg["storage"]] if isinstance(cfg["storage"], str) else set(cfg["storage"].values())):
        probes[f"storage:{s}"] = 1
    out["probes"] = probes
    out["exec_tape"] = tape.recorded()
    out["digest"] = C.digest_of(digests)
    if any(o["op"] == "exit" for o in ops[:-1]):
        out["nontrivial"] = [C.digest_of([describe(w), cfg["storage"], ops])]
    out["sample"] = {"workload": describe(w), "config": cfg, "ops": ops}
    return out


def simfs_rel(path, base):
    import re

    return re.sub(r"\d+", "N", os.path.relpath(path, base))


def _ds_values(ds, w):
    """Canonical values of every output the dataset exposes with the output's own shape."""
    vals = {}
    for n in all_outputs(w):
        if n in ds.variables:
            try:
                vals[n] = _nan_token(canon(ds[n].values))
            except Exception as e:  # noqa: BLE001
                vals[n] = f"<unreadable:{type(e).__name__}>"
    return vals


def _check_coords(ds, w, given, V, probes, where):
    """The inputs the dataset carries as coordinates are the inputs the run was given, element by element in the given
    order (1-D plain root inputs; zipped ones are levels of one combined index named 'a:b')."""
    for cname in list(ds.coords):
        parts = str(cname).split(":")
        if not all(p in w["inputs"] and w["inputs"][p]["kind"] in ("list", "ndarray") and len(w["inputs"][p]["axes"]) == 1
                   and not w["inputs"][p].get("elements") and p in given for p in parts):
            continue
        try:
            idx = ds.coords[cname].to_index()
            got = {p: canon(list(idx.get_level_values(p)) if len(parts) > 1 else list(idx)) for p in parts}
        except Exception as e:  # noqa: BLE001
            V("xarray", f"coordinate-unreadable:{where}", {"coord": str(cname), "exc": repr(e)[:200]})
            return
        for p in parts:
            probes["xarray_input_coordinate_compared"] = probes.get("xarray_input_coordinate_compared", 0) + 1
            if len(parts) > 1 and w["inputs"][p].get("descending"):
                probes["xarray_zipped_descending_coordinate"] = probes.get("xarray_zipped_descending_coordinate", 0) + 1
            exp = canon(list(given[p]) if not isinstance(given[p], tuple) else given[p])
            if got[p] != exp:
                V("xarray", f"input-coordinate-differs:{where}", {"input": p, "coord": str(cname), "got": repr(got[p])[:200],
                                                                   "given": repr(exp)[:200]})
                return


def _nan_token(v):
    """xarray turns missing entries into float nan; nan != nan would make equal datasets compare unequal."""
    if isinstance(v, float) and v != v:
        return "<NaN>"
    if isinstance(v, tuple):
        return tuple(_nan_token(x) for x in v)
    return v
