"""C14 — cache containers conform to their replacement-policy model.

part 'A': single-client operation histories stepped in lock-step with executable policy models.
part 'B': 2-3 clients of one shared cache (each holding its own pickled copy), pre-empted at every
manager RPC and lock operation; safety checks + linearizability (LRU) against the model."""
from __future__ import annotations

import copy
import os
import pickle
import warnings

from sim import manager as simmanager
from sim.kernel import Deadlock, StepCap
from sim.tape import Tape

from . import common as C

PID = "C14"
RULE = ("part A: class in {LRUCache, HybridCache, SimpleCache, DiskCache(+-LRU front, max_size None/1-3)} x max_size 1-3 x "
        "shared on/off (FakeManager) x allow_cloudpickle on/off x history of <=12 ops over 4 keys (put with unique value and "
        "tape-chosen duration incl. 0 and ties, get, in, len, clear, re-put, DiskCache reopen with possibly smaller "
        "max_size and tape-chosen file ctimes incl. ties and backward steps, the directory wiped by another handle, a key stored by another handle), stepped against an executable policy model. "
        "part B: 2-3 simulated processes with pickled copies of a shared LRU/Hybrid cache or a DiskCache (shared LRU front) on one directory, 2-4 ops each, pre-empted at "
        "every manager RPC. part R (about 1 case in 1000): a DiskCache directory filled by one real interpreter and reopened by a second one with "
        "another PYTHONHASHSEED, keys incl. instances of a class defined in __main__, to_hashable forms and a raw frozenset. Part A also has policy-stress "
        "histories (8-16 put/get ops, durations 1-8, no clear), puts of values that cannot be pickled and of bytes values (some "
        "looking like pickles); a fifth of the cases translate the key alphabet into falsy keys (None, 0, '', ()) or pipefunc-shaped "
        "tuple keys. part N (about 1 case in 1200): DiskCache file names of 100 000+ distinct keys must be pairwise distinct. part L (about 1 case in "
        "500): LRU/Hybrid caches of capacity 128-200 filled beyond the bound entry by entry, the model checked after every put. distinct_nontrivial = distinct (configuration, history, RPC-order digest) in which an "
        "eviction happened (A) or two clients' operations overlapped (B)")
COMPONENTS = {
    "real": ["pipefunc.cache LRUCache/HybridCache/SimpleCache/DiskCache", "cloudpickle/pickle", "tmpfs directory of a DiskCache"],
    "stub": ["multiprocessing.Manager dict/list/Lock (FakeManager, one yield point per RPC)", "file ctimes (tape-chosen)",
             "client processes (kernel threads holding pickled copies)"],
    "not_run": ["real manager server process (covered by `check.py fidelity` only)"],
}
ASSUMPTIONS = [
    "HybridCache: an eviction whenever len >= max_size at put (also on re-put of a resident key) follows the documented "
    "rule literally; ties in score / ctime may be resolved as any minimal entry",
    "presence is probed with `in` only (non-mutating); `get` is only issued where the history says so, plus a final sweep",
]

KEYS = ["a", "b", "c", "d"]


# ------------------------------------------------------------------ models
class LRUModel:
    def __init__(self, max_size):
        self.max = max_size
        self.items = []  # [(key, value)] oldest first

    def present(self, k):
        return any(x[0] == k for x in self.items)

    def value(self, k):
        return next((x[1] for x in self.items if x[0] == k), None)

    def victims_for_put(self, k):
        if self.present(k) or len(self.items) < self.max:
            return [None]
        return [self.items[0][0]]

    def put(self, k, v, victim=None, **_):
        if self.present(k):
            self.items = [x for x in self.items if x[0] != k]
        elif len(self.items) >= self.max:
            self.items.pop(0)
        self.items.append((k, v))

    def get(self, k):
        if not self.present(k):
            return None
        v = self.value(k)
        self.items = [x for x in self.items if x[0] != k] + [(k, v)]
        return v

    def clear(self):
        self.items = []

    def __len__(self):
        return len(self.items)

    def state(self):
        return tuple(self.items)


class SimpleModel(LRUModel):
    def __init__(self):
        super().__init__(10**9)


class HybridModel:
    def __init__(self, max_size, aw=0.5, dw=0.5):
        self.max, self.aw, self.dw = max_size, aw, dw
        self.vals, self.counts, self.durs = {}, {}, {}

    def present(self, k):
        return k in self.vals

    def value(self, k):
        return self.vals.get(k)

    def victims_for_put(self, k):
        if len(self.vals) < self.max:
            return [None]
        tc = sum(self.counts.values())
        td = sum(self.durs.values())
        sc = {x: self.aw * (self.counts[x] / tc if tc else 0.0) + self.dw * (self.durs[x] / td if td else 0.0) for x in self.vals}
        m = min(sc.values())
        return [x for x in sc if sc[x] <= m + 1e-15]  # (a tie is a tie: equal up to the last bits of the same arithmetic)

    def put(self, k, v, victim=None, duration=0.0):
        if victim is not None:
            for d in (self.vals, self.counts, self.durs):
                d.pop(victim, None)
        self.vals[k], self.counts[k], self.durs[k] = v, 1, duration

    def get(self, k):
        if k not in self.vals:
            return None
        self.counts[k] += 1
        return self.vals[k]

    def clear(self):
        self.vals, self.counts, self.durs = {}, {}, {}

    def __len__(self):
        return len(self.vals)


class DiskModel:
    def __init__(self, max_size, with_lru, lru_size):
        self.max = max_size
        self.files = {}  # key -> (value, ctime)
        self.with_lru = with_lru
        self.lru_size = lru_size
        self.lru = LRUModel(lru_size) if with_lru else None

    def reopen(self, max_size):
        self.max = max_size
        self.lru = LRUModel(self.lru_size) if self.with_lru else None

    def present(self, k):
        return (self.lru is not None and self.lru.present(k)) or k in self.files

    def value(self, k):
        if self.lru is not None and self.lru.present(k):
            return self.lru.value(k)
        return self.files[k][0] if k in self.files else None

    def get(self, k):
        if self.lru is not None and self.lru.present(k):
            return self.lru.get(k)
        if k in self.files:
            v = self.files[k][0]
            if self.lru is not None:
                self.lru.put(k, v)
            return v
        return None

    def put_stage1(self, k, v, ctime):
        self.files[k] = (v, ctime)
        if self.lru is not None:
            self.lru.put(k, v)

    def eviction_rounds(self):
        if self.max is None:
            return 0
        return max(0, len(self.files) - self.max)

    def oldest(self):
        m = min(c for _v, c in self.files.values())
        return [k for k, (_v, c) in self.files.items() if c == m]

    def clear(self):
        self.files = {}
        if self.lru is not None:
            self.lru.clear()

    def __len__(self):
        return len(self.files)


# ------------------------------------------------------------------ generation
REAL_KEYS = ["str", "int", "tuple", "K", "tupleK", "hashable-set", "hashable-dict", "frozenset"]


def gen_case(tape, tier):
    if tape.coin(0.001 if tier == "quick" else 0.0004, "real-second-interpreter"):
        keys = [k for k in REAL_KEYS if tape.coin(0.6, "real-key")] or ["K"]
        return {"part": "R", "config": {"cls": "disk", "cloudpickle": bool(tape.coin(0.6, "cp")), "with_lru": bool(tape.coin(0.4, "with-lru")),
                                        "hashseeds": [str(tape.choose(50, "hs-a")), str(50 + tape.choose(50, "hs-b"))]},
                "keys": keys}
    if tape.coin(0.0008 if tier == "quick" else 0.0002, "file-names"):
        # a DiskCache file does not record its key: two keys must never share a file name.  100 000+ keys shaped like the
        # ones pipefunc builds (output name, sorted keyword items) are mapped to their file names, no file is written
        return {"part": "N", "config": {"cls": "disk", "cloudpickle": bool(tape.coin(0.5, "cp"))},
                "n": 350 + tape.choose(60, "side"), "offset": tape.choose(1000, "offset")}
    if tape.coin(0.002 if tier == "quick" else 0.001, "large-cache"):
        # the capacities people actually use (the default is 128): fill beyond the bound, entry by entry, with gets in between
        cls = tape.pick(["lru", "hybrid"], "cls")
        n = tape.pick([128, 128, 129, 200], "large-max")
        ops = []
        for i in range(n + 3 + tape.choose(6, "extra")):
            ops.append(["put", i, tape.pick([1, 2, 3, 5, 8], "duration")])
            if i and tape.coin(0.3, "touch"):
                ops.append(["get", tape.choose(i, "which")])
        return {"part": "L", "config": {"cls": cls, "max_size": n, "shared": bool(tape.coin(0.3, "shared")), "cloudpickle": False,
                                        "access_weight": 0.5, "duration_weight": 0.5}, "ops": ops}
    if tape.coin(0.0008 if tier == "quick" else 0.0003, "huge-value"):
        # a value of tens of megabytes (a fitted model, a big table) replaces a small one under the same key
        return {"part": "A", "config": {"cls": "disk", "max_size": tape.pick([None, 2], "disk-max"), "shared": bool(tape.coin(0.5, "shared")),
                                        "cloudpickle": bool(tape.coin(0.5, "cp")), "with_lru": True, "lru_size": 2},
                "ops": [{"op": "put", "key": "a", "value": "v1", "duration": 1, "ctime_step": 1},
                        {"op": "put", "key": "a", "value": "<huge>", "duration": 1, "ctime_step": 1},
                        {"op": "get", "key": "a", "default": False}, {"op": "in", "key": "a"}, {"op": "len"}]}
    part = "A" if tape.coin(0.6, "part") else "B"
    if part == "A":
        cls = tape.pick(["lru", "lru", "hybrid", "hybrid", "simple", "disk", "disk"], "cls")
        cfg = {"cls": cls, "max_size": 1 + tape.choose(3, "max"), "shared": bool(tape.coin(0.4, "shared")),
               "cloudpickle": bool(tape.coin(0.5, "cp"))}
        if cls == "disk":
            cfg["max_size"] = tape.pick([None, 1, 2, 3], "disk-max")
            cfg["with_lru"] = bool(tape.coin(0.6, "with-lru"))
            cfg["lru_size"] = 1 + tape.choose(2, "lru-size")
            cfg["nested"] = bool(tape.coin(0.15, "nested-dir"))
        if tape.coin(0.2, "key-alphabet"):
            cfg["alphabet"] = tape.pick(sorted(ALPHABETS), "alphabet")
        if cls == "hybrid":
            # the documented score is access_weight*norm_count + duration_weight*norm_duration for ANY two weights
            cfg["access_weight"], cfg["duration_weight"] = tape.pick([[0.5, 0.5], [0.5, 0.5], [1.0, 1.0], [1.0, 0.0], [0.0, 1.0],
                                                                      [0.2, 0.9], [2.0, 0.5]], "hybrid-weights")
        ops = []
        nv = 0
        # policy stress: long put/get histories without clear and with spread-out durations, so that several evictions
        # happen in one history and the access-count and duration terms of the hybrid score pull in different directions
        stress = cls in ("hybrid", "lru") and bool(tape.coin(0.5, "policy-stress"))
        spread = stress and bool(tape.coin(0.3, "duration-spread"))  # durations from nanoseconds to hours in one cache
        for _ in range(8 + tape.choose(9, "nops") if stress else 2 + tape.choose(11, "nops")):
            choices = ["put", "put", "put", "get", "get", "in", "len", "clear"]
            if stress:
                choices = ["put", "put", "put", "get", "get", "get", "in"]
            if cls == "disk":
                choices += ["reopen", "wiped", "peer_put"]
            k = tape.pick(choices, "op")
            if k == "put":
                nv += 1
                ops.append({"op": "put", "key": tape.pick(KEYS, "key"),
                            "value": None if tape.coin(0.15, "none-value") else ("<unstorable>" if tape.coin(0.06, "unstorable") else
                                                                                      (f"<bytes>{nv}" if tape.coin(0.08, "bytes-value") else
                                                                                       ("<same>" if tape.coin(0.12, "same-value") else f"v{nv}"))),
                            "duration": tape.pick(([5000, 3e-9, 1e-9, 2e-9, 1.0] if spread else [1, 2, 3, 5, 8]) if stress
                                                  else [0, 0, 1, 1, 2, 5], "duration"),
                            "ctime_step": tape.pick([0, 1, 1, 2, -1], "ctime-step")})
            elif k == "get":
                ops.append({"op": k, "key": tape.pick(KEYS, "key"), "default": bool(tape.coin(0.4, "with-default"))})
            elif k == "in":
                ops.append({"op": k, "key": tape.pick(KEYS, "key")})
            elif k == "reopen":
                ops.append({"op": "reopen", "max_size": tape.pick([None, 1, 2, 3], "disk-max")})
            elif k == "peer_put":
                # another user of the directory (a second handle with the same bound, no front) stores a key of its own
                nv += 1
                ops.append({"op": "peer_put", "key": f"peer-{nv}", "value": f"v{nv}"})
            elif k == "wiped":
                # another user of the directory (a second handle without a front of its own) clears it: this handle's files
                # are gone, what its in-memory front still holds stays readable until this handle itself is cleared
                ops.append({"op": "wiped"})
            else:
                ops.append({"op": k})
        if cls == "lru" and tape.coin(0.3, "reput-oldest"):
            # the least recently used key is stored again with the value it has (a use like any other), then other keys
            # arrive: the victim must be chosen as if the key had just been used
            ops.append({"op": "put", "key": "<oldest>", "value": "<same>", "duration": 1, "ctime_step": 1})
            for kk in tape.shuffle(KEYS, "arrivals")[:2 + tape.choose(2, "n-arrivals")]:
                nv += 1
                ops.append({"op": "put", "key": kk, "value": f"v{nv}", "duration": 1, "ctime_step": 1})
        return {"part": "A", "config": cfg, "ops": ops}
    cls = tape.pick(["lru", "lru", "hybrid", "disk"], "cls")
    cfg = {"cls": cls, "max_size": 1 + tape.choose(3, "max"), "shared": True, "cloudpickle": bool(tape.coin(0.5, "cp")),
           "preempt": tape.pick([0.3, 0.6, 0.9], "preempt")}
    if cls == "disk":
        cfg["max_size"] = tape.pick([None, 1, 2, 3], "disk-max")
        cfg["with_lru"] = bool(tape.coin(0.6, "with-lru"))
        cfg["lru_size"] = 1 + tape.choose(2, "lru-size")
    if tape.coin(0.2, "key-alphabet"):
        cfg["alphabet"] = tape.pick(sorted(ALPHABETS), "alphabet")
    nv = 0

    def gen_ops(n):
        nonlocal nv
        res = []
        for _ in range(n):
            k = tape.pick(["put", "put", "get", "get", "in", "len", "clear"] if tape.coin(0.15, "allow-clear")
                          else ["put", "put", "get", "get", "in", "len"], "op")
            if k == "put":
                nv += 1
                res.append({"op": "put", "key": tape.pick(KEYS[:3], "key"), "value": f"v{nv}",
                            "duration": tape.pick([0, 1, 1, 2], "duration")})
            elif k in ("get", "in"):
                res.append({"op": k, "key": tape.pick(KEYS[:3], "key")})
            else:
                res.append({"op": k})
        return res

    prefill = gen_ops(tape.choose(4, "prefill"))
    clients = [gen_ops(2 + tape.choose(3, "client-ops")) for _ in range(2 + tape.choose(2, "nclients"))]
    return {"part": "B", "config": cfg, "prefill": prefill, "clients": clients}


def simplify(case):
    if case["part"] == "L":
        for i in range(len(case["ops"]) - 1, -1, -1):
            if case["ops"][i][0] == "get":
                c = copy.deepcopy(case)
                del c["ops"][i]
                yield c
        return
    if case["part"] == "N":
        return
    if case["part"] == "R":
        for i in range(len(case["keys"])):
            if len(case["keys"]) > 1:
                c = copy.deepcopy(case)
                del c["keys"][i]
                yield c
        return
    if case["config"].get("alphabet"):
        c = copy.deepcopy(case)
        del c["config"]["alphabet"]
        yield c
    if case["part"] == "A":
        for i in range(len(case["ops"])):
            c = copy.deepcopy(case)
            del c["ops"][i]
            if c["ops"]:
                yield c
        if case["config"].get("shared"):
            c = copy.deepcopy(case)
            c["config"]["shared"] = False
            yield c
        if case["config"].get("cloudpickle"):
            c = copy.deepcopy(case)
            c["config"]["cloudpickle"] = False
            yield c
        return
    for i in range(len(case["prefill"])):
        c = copy.deepcopy(case)
        del c["prefill"][i]
        yield c
    if len(case["clients"]) > 2:
        for i in range(len(case["clients"])):
            c = copy.deepcopy(case)
            del c["clients"][i]
            yield c
    for ci, ops in enumerate(case["clients"]):
        if len(ops) > 1:
            for i in range(len(ops)):
                c = copy.deepcopy(case)
                del c["clients"][ci][i]
                yield c
    if case["config"].get("cloudpickle"):
        c = copy.deepcopy(case)
        c["config"]["cloudpickle"] = False
        yield c


# ------------------------------------------------------------------ construction
ALPHABETS = {
    # symbolic key of the history -> key actually handed to the cache.  'falsy': every key is falsy (None, 0, "", ()),
    # 'tuples': keys shaped like the ones pipefunc builds (output name, sorted keyword items)
    "falsy": {"a": None, "b": 0, "c": "", "d": ()},
    "tuples": {"a": ("o0", (("x", 1),)), "b": ("o0", (("x", 2),)), "c": (("o1", "o2"), (("x", 1), ("y", None))), "d": ("o3", ())},
}


class KeyAdapter:
    """The cache under test behind a translation of the history's symbolic keys (models keep the symbolic ones)."""

    def __init__(self, cache, alphabet):
        self._c, self._alphabet = cache, alphabet

    def _k(self, k):
        return ALPHABETS[self._alphabet].get(k, k) if isinstance(k, str) else k

    def put(self, key, *a, **kw):
        return self._c.put(self._k(key), *a, **kw)

    def get(self, key, *a, **kw):
        return self._c.get(self._k(key), *a, **kw)

    def __contains__(self, key):
        return self._k(key) in self._c

    def __len__(self):
        return len(self._c)

    def clear(self):
        return self._c.clear()

    def _get_file_path(self, key):
        return self._c._get_file_path(self._k(key))

    def __getattr__(self, name):
        return getattr(self.__dict__["_c"], name)

    def __getstate__(self):
        return {"_c": self._c, "_alphabet": self._alphabet}

    def __setstate__(self, st):
        self.__dict__.update(st)


def make_cache(cfg, root):
    c = _make_cache(cfg, root)
    return KeyAdapter(c, cfg["alphabet"]) if cfg.get("alphabet") else c


def _make_cache(cfg, root):
    import pipefunc.cache as pc

    cls = cfg["cls"]
    if cls == "lru":
        return pc.LRUCache(max_size=cfg["max_size"], allow_cloudpickle=cfg["cloudpickle"], shared=cfg["shared"])
    if cls == "hybrid":
        return pc.HybridCache(max_size=cfg["max_size"], access_weight=cfg.get("access_weight", 0.5),
                              duration_weight=cfg.get("duration_weight", 0.5), allow_cloudpickle=cfg["cloudpickle"],
                              shared=cfg["shared"])
    if cls == "simple":
        return pc.SimpleCache()
    return pc.DiskCache(os.path.join(root, "cache"), max_size=cfg["max_size"], use_cloudpickle=cfg["cloudpickle"],
                        with_lru_cache=cfg["with_lru"], lru_cache_size=cfg["lru_size"], lru_shared=cfg["shared"])


def make_model(cfg):
    cls = cfg["cls"]
    if cls == "lru":
        return LRUModel(cfg["max_size"])
    if cls == "hybrid":
        return HybridModel(cfg["max_size"], cfg.get("access_weight", 0.5), cfg.get("duration_weight", 0.5))
    if cls == "simple":
        return SimpleModel()
    return DiskModel(cfg["max_size"], cfg["with_lru"], cfg["lru_size"])


def _frame(e):
    tb = e.__traceback__
    frame = None
    while tb is not None:
        fn = tb.tb_frame.f_code.co_filename
        if fn.endswith("pipefunc/cache.py"):
            frame = f"cache.py:{tb.tb_frame.f_code.co_name}"
        tb = tb.tb_next
    return frame


# ------------------------------------------------------------------ part A
def run_A(case, tape):
    cfg, ops = case["config"], case["ops"]
    viol, probes = [], {}

    def V(oracle, kind, detail=None, sig=None):
        viol.append({"property": PID, "oracle": oracle, "kind": kind, "detail": detail,
                     "signature": dict({"cls": cfg["cls"], "part": "A"}, **(sig or {}))})

    with C.Scratch() as root, warnings.catch_warnings():
        warnings.simplefilter("ignore")
        sim = C.new_sim(tape, root, preempt=0.0)
        now = [1000]

        def body():
            c = make_cache(cfg, root)
            m = make_model(cfg)
            sim.fs.ctimes_now = now
            inner = None
            if cfg["cls"] == "disk" and cfg.get("nested"):
                # another cache lives in a sub-directory of this one's directory (cache/ and cache/stage2/): neither may
                # count, evict or clear the other's files
                import pipefunc.cache as pc

                inner = pc.DiskCache(os.path.join(root, "cache", "stage2"), max_size=None, with_lru_cache=False)
                for j in range(3):
                    inner.put(f"inner-{j}", j)
                probes["nested_cache_dir"] = 1
            for i, op in enumerate(ops):
                before = {k: m.present(k) for k in KEYS}
                try:
                    if op["op"] == "put":
                        _put(c, m, op, cfg, sim, now, before, V, probes)
                    elif op["op"] == "get":
                        if op.get("default"):
                            # a stored None is a value, not a miss: with a default the two are distinguishable
                            pres = m.present(op["key"])
                            got = c.get(op["key"], "<default>")
                            exp = m.get(op["key"]) if pres else "<default>"
                        else:
                            got = c.get(op["key"])
                            exp = m.get(op["key"])
                        if got != exp:
                            V("model", "get-returned-wrong-value", {"step": i, "op": op, "got": repr(got), "expected": repr(exp)})
                    elif op["op"] == "in":
                        got = op["key"] in c
                        if got != m.present(op["key"]):
                            V("model", "presence-differs", {"step": i, "op": op, "got": got})
                    elif op["op"] == "len":
                        if len(c) != len(m):
                            V("model", "len-differs", {"step": i, "got": len(c), "expected": len(m)})
                    elif op["op"] == "clear":
                        c.clear()
                        m.clear()
                    elif op["op"] == "reopen":
                        cfg2 = dict(cfg, max_size=op["max_size"])
                        c = make_cache(cfg2, root)
                        m.reopen(op["max_size"])
                        _disk_evictions(c, m, op, V, probes)
                        probes["disk_reopen"] = probes.get("disk_reopen", 0) + 1
                    elif op["op"] == "peer_put":
                        import pipefunc.cache as pc

                        peer = pc.DiskCache(c.cache_dir, max_size=m.max, use_cloudpickle=cfg["cloudpickle"], with_lru_cache=False)
                        if cfg.get("alphabet"):
                            peer = KeyAdapter(peer, cfg["alphabet"])
                        now[0] += 1
                        ct_peer = now[0]
                        sim.fs.on_open_write = lambda p_, existed, ct_peer=ct_peer: sim.fs.ctimes.__setitem__(p_, ct_peer)
                        try:
                            peer.put(op["key"], op["value"])
                        finally:
                            sim.fs.on_open_write = None
                        m.files[op["key"]] = (op["value"], ct_peer)
                        _disk_evictions(peer, m, op, V, probes)
                        probes["disk_peer_put"] = probes.get("disk_peer_put", 0) + 1
                    elif op["op"] == "wiped":
                        import pipefunc.cache as pc

                        pc.DiskCache(c.cache_dir, max_size=None, with_lru_cache=False).clear()
                        m.files = {}
                        probes["disk_wiped_by_another_handle"] = probes.get("disk_wiped_by_another_handle", 0) + 1
                except (Deadlock, StepCap):
                    raise
                except Exception as e:  # noqa: BLE001
                    V("no-raise", f"{op['op']}-raised:{type(e).__name__}", {"step": i, "op": op, "exc": repr(e)[:200]},
                      {"frame": _frame(e), "exc": type(e).__name__})
                    return
                if viol:
                    return
                mx = m.max if hasattr(m, "max") else None
                if mx is not None and mx < 10**8 and len(c) > mx:
                    V("bound", "len-exceeds-max_size", {"step": i, "len": len(c), "max_size": mx})
                    return
                for k in KEYS:
                    if (k in c) != m.present(k):
                        V("model", "presence-differs-after-op", {"step": i, "op": op, "key": k, "impl": k in c, "model": m.present(k)})
                        return
            # final sweep: present <=> get returns the value most recently put
            for k in KEYS:
                pres = k in c
                exp = m.value(k)
                try:
                    got = c.get(k)
                except Exception as e:  # noqa: BLE001
                    V("no-raise", f"get-raised:{type(e).__name__}", {"final": True, "key": k, "exc": repr(e)[:200]},
                      {"frame": _frame(e), "exc": type(e).__name__})
                    return
                if pres and got != exp:
                    V("model", "present-but-get-wrong", {"key": k, "got": repr(got), "expected": repr(exp)})
                    return
                if not pres and got is not None:
                    V("model", "absent-but-get-returns", {"key": k, "got": repr(got)})
                    return
            if inner is not None and (len(inner) != 3 or any(inner.get(f"inner-{j}") != j for j in range(3))):
                V("model", "nested-cache-disturbed", {"inner_len": len(inner)})

        with sim:
            try:
                sim.kernel.run(body)
            except (Deadlock, StepCap) as e:
                V("liveness", type(e).__name__, str(e))
        simmanager.shutdown_all(sim)
    return viol, probes, sim


class _Huge:
    """A value whose pickle is tens of megabytes; compares by size and a fingerprint, prints small."""

    def __init__(self, n):
        self.data = b"\x07" * n

    def __eq__(self, other):
        return isinstance(other, _Huge) and len(other.data) == len(self.data)

    def __hash__(self):
        return hash(len(self.data))

    def __repr__(self):
        return f"<huge value of {len(self.data)} bytes>"


def _bytes_value(n):
    """Values of type bytes, among them ones that look like pickles (they are what a caller caches who serialises himself)."""
    import pickle

    return [pickle.dumps(("payload", n)), pickle.dumps(None), b"\x80\x05 not a pickle at all", b"", b"plain-%d" % n][n % 5]


def _put(c, m, op, cfg, sim, now, before, V, probes):
    if op["key"] == "<oldest>":
        op = dict(op, key=m.items[0][0] if isinstance(m, LRUModel) and m.items else KEYS[0])
        probes["oldest_key_put_again"] = probes.get("oldest_key_put_again", 0) + 1
    k, v = op["key"], op["value"]
    if v == "<same>":
        # the value the key already has (a recomputed, equal result is stored again): still a use of the key
        cur = m.value(k) if m.present(k) else None
        op = dict(op, value=cur if cur is not None else "v-same")
        v = op["value"]
        probes["same_value_reput"] = probes.get("same_value_reput", 0) + 1
    if v == "<huge>":
        op = dict(op, value=_Huge(65 << 20))
        v = op["value"]
        probes["huge_value"] = probes.get("huge_value", 0) + 1
    if isinstance(v, str) and v.startswith("<bytes>"):
        op = dict(op, value=_bytes_value(int(v[7:])))
        v = op["value"]
        probes["bytes_value"] = probes.get("bytes_value", 0) + 1
    if v == "<unstorable>":
        # a value that cannot be pickled: a shared cache (and a disk cache) cannot store it and may raise, but must then
        # be left exactly as it was; a process-local cache just keeps the object
        from sim.userfuncs import Uncopyable

        v = Uncopyable(f"{k}-obj")
        must_pickle = cfg["cls"] == "disk" or (cfg.get("shared") and cfg["cls"] in ("lru", "hybrid"))
        if must_pickle:
            try:
                if cfg["cls"] == "hybrid":
                    c.put(k, v, float(op["duration"]))
                else:
                    c.put(k, v)
            except Exception:  # noqa: BLE001
                probes["unstorable_put_refused"] = probes.get("unstorable_put_refused", 0) + 1
                if cfg["cls"] in ("lru", "hybrid"):
                    # making room first and then failing to insert is within the property (an eviction yields a miss,
                    # never a wrong value) as long as it is the designated victim; anything else must be unchanged
                    gone = [x for x in KEYS if before[x] and x not in c]
                    victims = m.victims_for_put(k)
                    if gone:
                        if victims == [None] or len(gone) > 1 or gone[0] not in victims:
                            V("policy", "refused-put-evicted-wrongly", {"op": op, "gone": gone, "designated": victims})
                            return
                        if cfg["cls"] == "hybrid":
                            for d in (m.vals, m.counts, m.durs):
                                d.pop(gone[0], None)
                        else:
                            m.items = [x for x in m.items if x[0] != gone[0]]
                return  # otherwise the model is unchanged: the generic checks after the op compare the states
            V("model", "unstorable-value-accepted", {"op": op})
            return
        op = dict(op, value=v)
    if cfg["cls"] == "disk":
        now[0] += op.get("ctime_step", 1)
        ct = now[0]
        sim.fs.on_open_write = lambda p, existed: sim.fs.ctimes.__setitem__(p, ct)
        rounds_possible = True
        try:
            c.put(k, v)
        finally:
            sim.fs.on_open_write = None
        m.put_stage1(k, v, ct)
        _disk_evictions(c, m, op, V, probes)
        return
    if cfg["cls"] == "hybrid":
        victims = m.victims_for_put(k)
        c.put(k, v, float(op["duration"]))
        gone = [x for x in KEYS if before[x] and x != k and x not in c]
        self_evicted = k in victims
        if victims == [None]:
            victim = None
            if gone:
                V("policy", "evicted-without-need", {"op": op, "gone": gone})
                return
        else:
            probes["eviction"] = probes.get("eviction", 0) + 1
            if len(gone) > 1:
                V("policy", "evicted-more-than-one", {"op": op, "gone": gone})
                return
            if gone:
                victim = gone[0]
                if victim not in victims:
                    V("policy", "evicted-not-lowest-score", {"op": op, "evicted": victim, "designated": victims})
                    return
            elif self_evicted:
                victim = k
            else:
                V("policy", "nothing-evicted-at-capacity", {"op": op, "designated": victims})
                return
            if len(victims) > 1:
                probes["score_tie"] = probes.get("score_tie", 0) + 1
        m.put(k, v, victim=victim, duration=float(op["duration"]))
        return
    victims = m.victims_for_put(k)
    c.put(k, v)
    gone = [x for x in KEYS if before[x] and x != k and x not in c]
    if victims == [None]:
        if gone:
            V("policy", "evicted-without-need", {"op": op, "gone": gone})
            return
    else:
        probes["eviction"] = probes.get("eviction", 0) + 1
        if gone != victims:
            V("policy", "evicted-not-least-recently-used", {"op": op, "evicted": gone, "designated": victims})
            return
    if before[k]:
        probes["reput_resident"] = probes.get("reput_resident", 0) + 1
    m.put(k, v)


def _disk_evictions(c, m, op, V, probes):
    """Files that disappeared must be the oldest by ctime (ties: any), exactly as many as needed."""
    n = m.eviction_rounds()
    gone = [x for x in list(m.files) if not _file_exists(c, x)]
    if len(gone) != n:
        V("policy", "wrong-number-of-files-evicted", {"op": op, "gone": gone, "expected_count": n})
        return
    if n:
        probes["eviction"] = probes.get("eviction", 0) + 1
    remaining = set(gone)
    for _ in range(n):
        old = m.oldest()
        pick = next((x for x in old if x in remaining), None)
        if pick is None:
            V("policy", "evicted-file-not-oldest", {"op": op, "gone": gone, "oldest": old})
            return
        remaining.discard(pick)
        del m.files[pick]


def _file_exists(c, key):
    return os.path.exists(str(c._get_file_path(key)))


# ------------------------------------------------------------------ part B
def run_B(case, tape):
    cfg = case["config"]
    viol, probes = [], {}

    def V(oracle, kind, detail=None, sig=None):
        base = {"cls": cfg["cls"], "part": "B"}
        if cfg["cls"] == "disk":
            base["with_lru"] = bool(cfg.get("with_lru"))
        viol.append({"property": PID, "oracle": oracle, "kind": kind, "detail": detail, "signature": dict(base, **(sig or {}))})

    hist = []  # dict(client, op, inv, ret, result, exc)
    final = {}
    with C.Scratch() as root, warnings.catch_warnings():
        warnings.simplefilter("ignore")
        sim = C.new_sim(tape, root, preempt=cfg.get("preempt", 0.6))
        k = sim.kernel

        def do(cache, op, who):
            rec = {"client": who, "op": op, "inv": k.log(f"inv:{who}:{op['op']}"), "ret": None, "result": None, "exc": None}
            hist.append(rec)
            try:
                if op["op"] == "put":
                    if cfg["cls"] == "hybrid":
                        cache.put(op["key"], op["value"], float(op["duration"]))
                    else:
                        cache.put(op["key"], op["value"])
                elif op["op"] == "get":
                    rec["result"] = cache.get(op["key"])
                elif op["op"] == "in":
                    rec["result"] = op["key"] in cache
                elif op["op"] == "len":
                    rec["result"] = len(cache)
                else:
                    cache.clear()
            except (Deadlock, StepCap):
                raise
            except Exception as e:  # noqa: BLE001
                rec["exc"] = e
            rec["ret"] = k.log(f"ret:{who}:{op['op']}")

        # file ctimes are a clock too: every file gets a strictly increasing virtual ctime, so "the oldest file" is
        # never a matter of real timestamp granularity (and replays do not depend on the real clock)
        ct = [1000]

        def stamp(path, existed):
            ct[0] += 1
            sim.fs.ctimes[path] = ct[0]

        sim.fs.on_open_write = stamp
        sim.fs.read_yields = cfg["cls"] == "disk"  # another process may act between a listing and the stat of its entries

        def body():
            c = make_cache(cfg, root)
            for op in case["prefill"]:
                do(c, op, "main")
            done = []
            for ci, ops in enumerate(case["clients"]):
                copy_ = pickle.loads(pickle.dumps(c))  # through the real __getstate__ guard

                def client(copy_=copy_, ops=ops, ci=ci):
                    for op in ops:
                        do(copy_, op, f"c{ci}")
                    done.append(ci)

                k.spawn(client, f"client{ci}", proc=("client", ci))
            k.block_until(lambda: len(done) == len(case["clients"]) or
                          all(t.state == "done" for t in k.threads if t is not k.main), "join-clients")
            if cfg["cls"] == "disk":
                final["files"] = len(c)

        with sim:
            try:
                sim.kernel.run(body)
            except Deadlock as e:
                V("liveness", "deadlock", str(e))
            except StepCap as e:
                V("liveness", "no-progress", str(e))
        texc = [t for t in sim.kernel.threads if t.exc is not None]
        if texc and not viol:
            V("liveness", "client-died:" + type(texc[0].exc).__name__, repr(texc[0].exc)[:300])
        simmanager.shutdown_all(sim)
    if viol:
        return viol, probes, sim
    concurrent = [r for r in hist if r["client"] != "main"]
    overlap = any(a["inv"] < b["ret"] and b["inv"] < a["ret"] for i, a in enumerate(concurrent) for b in concurrent[i + 1:]
                  if a["client"] != b["client"] and a["ret"] and b["ret"])
    if overlap:
        probes["clients_overlapped"] = 1
    # (a) no operation raises
    for r in hist:
        if r["exc"] is not None:
            V("no-raise", f"{r['op']['op']}-raised:{type(r['exc']).__name__}", {"op": r["op"], "client": r["client"], "exc": repr(r["exc"])[:200]},
              {"frame": _frame(r["exc"]), "exc": type(r["exc"]).__name__})
            return viol, probes, sim
    # (b) len bound.  Not asserted for a DiskCache shared between processes: it writes the file and then
    # evicts without any inter-process lock, so len() == max_size + (number of concurrent writers) is
    # reachable by construction; the single-client bound is decided in part A.
    for r in hist:
        if cfg["cls"] != "disk" and r["op"]["op"] == "len" and r["result"] > cfg["max_size"]:
            V("bound", "len-exceeds-max_size", {"len": r["result"], "max_size": cfg["max_size"], "client": r["client"]})
            return viol, probes, sim
    # (c) gets return None or a value put to that key, not older than the last put completed before the get began
    puts = [r for r in hist if r["op"]["op"] == "put"]
    for r in hist:
        if r["op"]["op"] != "get" or r["result"] is None:
            continue
        key = r["op"]["key"]
        src = next((p for p in puts if p["op"]["key"] == key and p["op"]["value"] == r["result"]), None)
        if src is None or src["inv"] > r["ret"]:
            V("values", "get-returned-value-never-put-to-key", {"get": r["op"], "result": repr(r["result"])})
            return viol, probes, sim
        newer = [p for p in puts if p["op"]["key"] == key and p["ret"] < r["inv"] and p["inv"] > src["ret"]]
        if newer:
            V("values", "get-returned-stale-value", {"get": r["op"], "result": repr(r["result"]), "overwritten_by": newer[0]["op"]})
            return viol, probes, sim
    # (f) DiskCache at quiescence: concurrent evictions may leave too many files (no inter-process lock), but never
    # fewer than the bound allows - a file that is not among the oldest must not silently disappear
    if cfg["cls"] == "disk" and final.get("files") is not None and not any(r["op"]["op"] == "clear" for r in hist):
        distinct = len({r["op"]["key"] for r in puts})
        floor = distinct if cfg["max_size"] is None else min(cfg["max_size"], distinct)
        if final["files"] < floor:
            keys_put = [r["op"]["key"] for r in puts]
            V("policy", "disk-over-evicted", {"files_left": final["files"], "distinct_keys_put": distinct, "max_size": cfg["max_size"]},
              {"key_put_more_than_once": len(keys_put) != len(set(keys_put))})
            return viol, probes, sim
    # (d) put/get hold the lock for their whole effect, so their sub-history must be linearizable against the
    # LRU model (this is where "the entry evicted is the least recently used" is decided under concurrency).
    # `in`/`len` read one RPC without the lock and `clear` deletes key by key, so their results may legitimately
    # show the inside of another client's put/clear: they are judged by (b) and (e) only.
    pg = [r for r in hist if r["op"]["op"] in ("put", "get")]
    if cfg["cls"] == "lru" and len(pg) <= 14 and not any(r["op"]["op"] == "clear" for r in hist):
        if not linearizable(pg, cfg["max_size"]):
            V("linearizable", "no-sequential-witness-for-put-get", {"history": [(r["client"], r["op"], r["inv"], r["ret"], repr(r["result"])) for r in pg]})
        probes["linearizability_checked"] = 1
    # (e) `in` may only report keys for which a put was invoked before it returned
    for r in hist:
        if r["op"]["op"] == "in" and r["result"]:
            if not any(p["op"]["key"] == r["op"]["key"] and p["inv"] < r["ret"] for p in puts):
                V("values", "reported-present-but-never-put", {"op": r["op"]})
                break
    return viol, probes, sim


def linearizable(hist, max_size):
    ops = list(hist)
    n = len(ops)
    seen = set()

    def apply(state, r):
        m = LRUModel(max_size)
        m.items = list(state)
        op = r["op"]
        if op["op"] == "put":
            m.put(op["key"], op["value"])
            res = None
        elif op["op"] == "get":
            res = m.get(op["key"])
        elif op["op"] == "in":
            res = m.present(op["key"])
        elif op["op"] == "len":
            res = len(m)
        else:
            m.clear()
            res = None
        return tuple(m.items), res

    def rec(done_mask, state):
        if done_mask == (1 << n) - 1:
            return True
        key = (done_mask, state)
        if key in seen:
            return False
        seen.add(key)
        rem = [i for i in range(n) if not done_mask >> i & 1]
        min_ret = min(ops[i]["ret"] for i in rem)
        for i in rem:
            if ops[i]["inv"] > min_ret:
                continue  # another pending op returned before this one was invoked
            st2, res = apply(state, ops[i])
            if ops[i]["op"]["op"] in ("get", "in", "len") and res != ops[i]["result"]:
                continue
            if rec(done_mask | 1 << i, st2):
                return True
        return False

    return rec(0, ())


# ------------------------------------------------------------------ entry
def run_real(case):
    """DiskCache directory written by one real interpreter and reopened by another (other hash seed)."""
    import json
    import subprocess
    import sys

    cfg = case["config"]
    out = {"violations": [], "probes": {"real_second_interpreter": 1, "part:R": 1, "cls:disk": 1}, "nontrivial": [],
           "evaluations": 1, "yields": 0, "sim_time": 0.0, "exec_tape": [], "digest": None, "sample": case}
    child = os.path.join(os.path.dirname(os.path.abspath(__file__)), "c14_real_child.py")
    spec = {"use_cloudpickle": cfg["cloudpickle"], "with_lru": cfg["with_lru"], "keys": case["keys"], "max_size": None}
    with C.Scratch() as root:
        spath, folder = os.path.join(root, "spec.json"), os.path.join(root, "cache")
        with open(spath, "w") as f:
            json.dump(spec, f)
        res = []
        for role, hs in zip(("put", "check"), cfg["hashseeds"]):
            env = dict(os.environ, PYTHONHASHSEED=hs, PYTHONDONTWRITEBYTECODE="1")
            r = subprocess.run([sys.executable, child, role, folder, spath], env=env, capture_output=True, text=True, timeout=300)
            res.append(r)
            if r.returncode != 0:
                break
    last = res[-1]
    line = (last.stdout.strip().splitlines() or ["{}"])[-1]
    out["digest"] = C.digest_of([[r.returncode for r in res], line])
    out["nontrivial"] = [C.digest_of([case["keys"], cfg["cloudpickle"], cfg["with_lru"]])]
    if last.returncode == 0:
        return out
    sig = {"cls": "disk", "part": "R"}
    if len(res) == 1 or last.returncode == 3:
        kind = f"real-{'put' if len(res) == 1 else 'reopen'}-raised"
        detail = {"stdout": last.stdout[-600:], "stderr": last.stderr[-300:]}
    else:
        try:
            d = json.loads(line)
        except ValueError:
            d = {"stdout": last.stdout[-400:]}
        detail = d
        bad = set(d.get("missing", [])) | {x[0] for x in d.get("wrong", [])}
        if d.get("wrong"):
            kind = "wrong-value-after-real-reopen"
        elif bad:
            kind = "key-missing-after-real-reopen"
        else:
            kind = "entry-count-differs-after-real-reopen"
        # the extra entries of a re-put are the other face of a key that was not found
        sig["only_raw_frozenset_key_affected"] = bool(bad) and bad <= {"frozenset"} and \
            d.get("len_after", 0) - len(case["keys"]) <= len(bad)
    out["violations"].append({"property": PID, "oracle": "real-second-interpreter", "kind": kind, "detail": detail, "signature": sig})
    return out


def run_large(case, tape):
    """Part L: a cache of realistic capacity filled beyond its bound; after every put the set of resident keys is the
    model's (the designated victim, and only it, is gone)."""
    cfg = case["config"]
    viol, probes = [], {"part:L": 1, f"cls:{cfg['cls']}": 1}

    def V(oracle, kind, detail=None):
        viol.append({"property": PID, "oracle": oracle, "kind": kind, "detail": detail,
                     "signature": {"cls": cfg["cls"], "part": "L"}})

    with C.Scratch() as root:
        sim = C.new_sim(tape, root, preempt=0.0, clock=True, step_cap=5_000_000)  # a shared cache: one yield per RPC

        def body():
            c = _make_cache(cfg, root)
            m = make_model(cfg)
            put = []
            for i, op in enumerate(case["ops"]):
                key = f"k{op[1]}"
                try:
                    if op[0] == "get":
                        got, exp = c.get(key), m.get(key)
                        if got != exp:
                            V("model", "get-returned-wrong-value", {"step": i, "key": key, "got": repr(got), "expected": repr(exp)})
                            return
                        continue
                    victims = m.victims_for_put(key)
                    if cfg["cls"] == "hybrid":
                        c.put(key, f"v{op[1]}", float(op[2]))
                    else:
                        c.put(key, f"v{op[1]}")
                except Exception as e:  # noqa: BLE001
                    V("no-raise", f"{op[0]}-raised:{type(e).__name__}", {"step": i, "exc": repr(e)[:200]})
                    return
                gone = [k for k in put if m.present(k) and k not in c]
                if victims == [None]:
                    if gone:
                        V("policy", "evicted-without-need", {"step": i, "gone": gone[:5], "len": len(c)})
                        return
                    m.put(key, f"v{op[1]}", duration=float(op[2]))
                else:
                    probes["eviction"] = probes.get("eviction", 0) + 1
                    if len(gone) != 1 or gone[0] not in victims:
                        V("policy", "evicted-other-than-the-designated-entry", {"step": i, "gone": gone[:5], "designated": victims[:5],
                                                                               "len": len(c), "max_size": cfg["max_size"]})
                        return
                    m.put(key, f"v{op[1]}", victim=gone[0], duration=float(op[2]))
                put.append(key)
                if len(c) != len(m) or len(c) > cfg["max_size"]:
                    V("bound", "len-differs-from-model", {"step": i, "len": len(c), "model": len(m), "max_size": cfg["max_size"]})
                    return

        with sim:
            sim.kernel.run(body)
        simmanager.shutdown_all(sim)
    return viol, probes, sim


def run_names(case):
    """Part N: injectivity of DiskCache's key -> file name mapping over a large family of realistic keys."""
    cfg = case["config"]
    out = {"violations": [], "probes": {"part:N": 1, "cls:disk": 1}, "nontrivial": [], "evaluations": 1, "yields": 0,
           "sim_time": 0.0, "exec_tape": [], "digest": None, "sample": case}
    with C.Scratch() as root:
        c = _make_cache(dict(cfg, max_size=None, with_lru=False, lru_size=1, shared=False), root)
        seen = {}
        n, off = case["n"], case["offset"]
        for i in range(n):
            for j in range(n):
                # ints of one and two bytes, strings of varying length and doubles: the pickles differ in many places
                key = (f"out{i % 7}", (("a", off + i), ("name", f"v{j}-{(off + i) * j}"), ("t", (off + j) / 7)))
                name = c._get_file_path(key).name
                if name in seen:
                    out["violations"].append({"property": PID, "oracle": "values", "kind": "distinct-keys-share-a-file-name",
                                              "detail": {"keys": [repr(seen[name]), repr(key)], "file": name, "keys_tried": len(seen)},
                                              "signature": {"cls": "disk", "part": "N"}})
                    out["digest"] = C.digest_of([name])
                    return out
                seen[name] = key
        out["probes"]["file_names_compared"] = len(seen)
        out["digest"] = C.digest_of([len(seen)])
        out["nontrivial"] = [C.digest_of([case])]
    return out


def run_case(case, exec_seed=None, exec_tape=None):
    C.begin_case()
    if case["part"] == "R":
        return run_real(case)
    if case["part"] == "N":
        return run_names(case)
    if case["part"] == "L":
        tape = Tape(exec_seed) if exec_tape is None else Tape(recorded=exec_tape)
        viol, probes, sim = run_large(case, tape)
        return {"violations": viol, "probes": probes, "evaluations": 1, "yields": sim.kernel.steps, "sim_time": 0.0,
                "exec_tape": tape.recorded(), "digest": sim.kernel.digest(), "nontrivial": [C.digest_of([case])], "sample": {
                    "part": "L", "config": case["config"], "ops": len(case["ops"])}}
    tape = Tape(exec_seed) if exec_tape is None else Tape(recorded=exec_tape)
    if case["part"] == "A":
        viol, probes, sim = run_A(case, tape)
    else:
        viol, probes, sim = run_B(case, tape)
    cfg = case["config"]
    probes[f"part:{case['part']}"] = 1
    if cfg.get("alphabet"):
        probes[f"keys:{cfg['alphabet']}"] = 1
    probes[f"cls:{cfg['cls']}"] = 1
    if cfg.get("shared"):
        probes["shared"] = 1
    for k2, v2 in sim.probes.items():
        probes[k2] = probes.get(k2, 0) + v2
    out = {"violations": viol, "probes": probes, "evaluations": 1, "yields": sim.kernel.steps, "sim_time": 0.0,
           "exec_tape": tape.recorded(), "digest": sim.kernel.digest(), "nontrivial": []}
    if probes.get("eviction") or probes.get("clients_overlapped"):
        out["nontrivial"] = [C.digest_of([case, sim.kernel.sched_digest()])]
    out["sample"] = case
    return out
