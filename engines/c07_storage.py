"""C07 — every storage backend behaves as a masked n-d object array.

Operation histories (dump/getitem/to_array/mask/mask_linear/has_index/get_from_index/invalid keys,
persist, reopen = restart with only durable state, worker handle = pickled copy dumping) on every
registered backend, stepped against a NumPy masked object array model."""
from __future__ import annotations

import copy
import itertools
import os
import pickle
import warnings

import numpy as np

from sim import manager as simmanager
from sim.kernel import Deadlock, SimCrash, StepCap
from sim.tape import Tape
from sim.userfuncs import MASKED, canon

from . import common as C

PID = "C07"
RULE = ("one case = backend (every class in storage_registry) x geometry (full rank 1-3, sizes 1-3, every external/internal "
        "mask, also the one without any external axis) x history of <=12 ops: dump with int/negative/slice keys of external rank, "
        "__getitem__ with int/negative/slice keys of full rank (also bare, un-tupled keys), custom filename_template for FileArray,  to_array(splat_internal None/True/False), mask, "
        "mask_linear, has_index/get_from_index over all linear indices, out-of-range and wrong-rank keys, persist, reopen "
        "(new instance on the same folder; for dict backends only the last persisted snapshot survives; optionally after "
        "a simulated process exit that kills manager processes), worker handle (pickled copy dumps; visible to the parent "
        "iff dump_in_subprocess), crash = process death before file-system event k of a dump or a persist (optionally tearing the write) followed by a "
        "restart that must find every element old or new; a quarter of the cases name the folder by a relative path and move the working directory "
        "(chdir) between operations; in half of the cases file modification times come from a virtual coarse clock "
        "(0/1 tick per write) so that quick rewrites share a timestamp; 3% of the cases are agreement histories (the same operations on every shipped "
        "backend with masked-array values along internal axes, results compared across backends); rare big cases (4100-8232 elements). distinct_nontrivial = distinct (backend, geometry, history) digests with at least one "
        "dump and one read")
COMPONENTS = {
    "real": ["FileArray / DictArray / SharedMemoryDictArray (all public methods)", "normalize_key, select_by_mask, "
             "shape_to_strides", "cloudpickle files on tmpfs", "FileArray's reader thread pool"],
    "stub": ["multiprocessing.Manager", "process exit between persist and reopen", "process death inside dump/persist (SimCrash at file-system seams, torn writes)", "worker process (pickled copy)",
             "file modification times (virtual coarse clock advanced 0/1 per write by the tape)"],
    "not_run": ["zarr backends (not importable in this image)"],
}
ASSUMPTIONS = [
    "an element counts as masked if its mask bit is set or it is the np.ma.masked constant",
    "get_from_index is only called for present elements; linear indices are not probed out of range",
    "slice keys in dump store the same value at every selected external index (both backends document this)",
    "stored values include None (about one in four): a stored None is present and unmasked",
]


def gen_case(tape, tier):
    from pipefunc.map import storage_registry

    if tape.coin(0.0003 if tier == "quick" else 0.0001, "big-array"):
        # thousands of elements: more than any batch size somebody might read or write them in
        n = tape.pick([4100, 8200, 8232], "big-n")
        return {"backend": "file_array", "full": [n], "mask": [True], "coarse_mtime": False, "relative": False, "big": True,
                "ops": [{"op": "dump", "key": [{"slice": [None, None, None]}], "value": 1},
                        {"op": "dump", "key": [tape.choose(n, "idx")], "value": 2},
                        {"op": "to_array", "splat": None}, {"op": "mask_linear"}, {"op": "get", "key": [n - 1]}]}
    if tape.coin(0.03, "agreement"):
        # values for which there is no single reference reading (masked arrays with masked entries stored along an internal
        # axis): the property still demands that all backends agree with one another, operation by operation
        rank = 2 + tape.choose(2, "rank")
        full = [1 + tape.choose(3, "size") for _ in range(rank)]
        mask = [True] + [False] * (rank - 1)
        if rank == 3 and tape.coin(0.5, "second-external"):
            mask[1] = True
        ext = [s for s, m in zip(full, mask) if m]
        ops = []
        for j in range(3 + tape.choose(6, "nops")):
            o = tape.pick(["dump", "dump", "get", "get", "to_array", "index", "mask_linear"], "op")
            if o == "dump":
                ops.append({"op": "dump", "key": [tape.choose(n, "idx") for n in ext], "value": j + 1,
                            "masked_at": tape.choose(8, "masked-at")})
            elif o == "get":
                ops.append({"op": "get", "key": [tape.choose(n, "idx") if tape.coin(0.7, "int") else {"slice": [None, None, None]} for n in full]})
            elif o == "to_array":
                ops.append({"op": "to_array", "splat": tape.pick([None, True, False], "splat")})
            else:
                ops.append({"op": o})
        return {"agree": True, "backend": "all", "full": full, "mask": mask, "ops": ops, "coarse_mtime": False, "relative": False}
    backend = tape.pick(sorted(b for b in storage_registry if b != "eager_dict"), "backend")  # shipped backends only
    rank = 1 + tape.choose(3, "rank")
    full = [1 + tape.choose(3, "size") for _ in range(rank)]
    while True:
        mask = [bool(tape.coin(0.65, "external")) for _ in range(rank)]
        if any(mask) or tape.coin(0.5, "all-internal"):
            break  # (all axes internal: one element, external shape (), e.g. the output of "x[:] -> y[j]")
    ext = [s for s, m in zip(full, mask) if m]
    nops = 2 + tape.choose(11, "nops")
    ops = []
    nv = 0

    def key(sizes, allow_bad=False):
        k = []
        for n in sizes:
            t = tape.pick(["int", "int", "neg", "slice", "slice", "npint"], "ktype")
            if t == "int":
                k.append(tape.choose(n, "idx"))
            elif t == "neg":
                k.append(-1 - tape.choose(n, "idx"))
            elif t == "npint":
                k.append({"np": tape.choose(2 * n, "idx") - n})  # NumPy integer, possibly negative
            else:
                a = tape.pick([None, 0, 1, -1], "sl-a")
                b = tape.pick([None, n, n - 1, 1, -1], "sl-b")
                c = tape.pick([None, None, 1, 2, -1], "sl-c")
                k.append({"slice": [a, b, c]})
        return k

    relative = bool(tape.coin(0.25, "relative-folder"))
    for _ in range(nops):
        o = tape.pick(["dump", "dump", "dump", "get", "get", "to_array", "mask", "mask_linear", "index", "bad_get",
                       "bad_dump", "persist", "reopen", "worker_dump", "crash", "dump_while_opened"]
                      + (["chdir", "chdir"] if relative else []), "op")
        if o in ("dump", "worker_dump", "dump_while_opened"):
            nv += 1
            ops.append({"op": o, "key": key(ext), "value": nv})
        elif o == "crash":
            # the process dies inside (before file-system event `at` of) a dump or a persist, possibly tearing a write
            nv += 1
            what = tape.pick(["dump", "dump", "persist"], "crash-in")
            ops.append({"op": "crash_" + what, **({"key": key(ext), "value": nv} if what == "dump" else {}),
                        "at": tape.choose(7, "crash-at"), "torn": tape.pick([None, None, 1, -1, 20], "torn")})
        elif o == "get":
            k = key(full)
            ops.append({"op": "get", "key": {"bare": k[0]} if len(full) == 1 and tape.coin(0.3, "bare") else k})
        elif o == "to_array":
            ops.append({"op": "to_array", "splat": tape.pick([None, True, False], "splat")})
        elif o == "bad_get":
            bad = tape.pick(["range", "rank"], "bad")
            k = key(full)
            if bad == "range":
                ax = tape.choose(len(full), "axis")
                k[ax] = full[ax] + tape.choose(2, "over") if tape.coin(0.5, "hi") else -full[ax] - 1 - tape.choose(2, "under")
            else:
                k = k[:-1] if len(k) > 1 and tape.coin(0.5, "short") else k + [0]
                if len(full) > 1 and tape.coin(0.3, "bare"):
                    k = {"bare": k[0]}  # a bare index on an array of rank >= 2: one index too few
            ops.append({"op": "bad_get", "key": k})
        elif o == "bad_dump":
            bad = tape.pick(["range", "rank"], "bad") if ext else "rank"
            k = key(ext)
            if bad == "range":
                ax = tape.choose(len(ext), "axis")
                k[ax] = ext[ax] + tape.choose(2, "over") if tape.coin(0.5, "hi") else -ext[ax] - 1 - tape.choose(2, "under")
            else:
                if len(full) > len(ext) and tape.coin(0.4, "getitem-style"):
                    # a __getitem__-style key of full rank (slice(None) at the internal positions) is not a dump key
                    it = iter(k)
                    k = [next(it) if m_ else {"slice": [None, None, None]} for m_ in mask]
                else:
                    k = k + [0]
                if len(ext) > 1 and isinstance(k, list) and len(k) == len(ext) + 1 and tape.coin(0.4, "bare"):
                    k = {"bare": k[0]}
            nv += 1
            ops.append({"op": "bad_dump", "key": k, "value": nv})
        elif o == "reopen":
            ops.append({"op": "reopen", "exit": bool(tape.coin(0.5, "exit"))})
        else:
            ops.append({"op": o})
    case = {"backend": backend, "full": full, "mask": mask, "ops": ops, "coarse_mtime": bool(tape.coin(0.5, "coarse-mtime")),
            "relative": relative}
    if backend == "dict" and tape.coin(0.2, "mapping-with-missing-hook"):
        case["mapping"] = tape.pick(["defaultdict", "counter"], "mapping")  # the public mapping= argument, with a __missing__ hook
    if backend == "file_array" and tape.coin(0.25, "filename-template"):
        case["template"] = tape.pick(["a_{:d}.pickle", "elem-{:d}.bin", "__{:d}__.pickle.v2"], "template")
    return case


def simplify(case):
    for i in range(len(case["ops"])):
        c = copy.deepcopy(case)
        del c["ops"][i]
        if c["ops"]:
            yield c
    for ax, n in enumerate(case["full"]):
        if n > 1:
            c = copy.deepcopy(case)
            c["full"][ax] = n - 1
            yield c
    for i, op in enumerate(case["ops"]):
        if "key" in op and isinstance(op["key"], list):
            for j, k in enumerate(op["key"]):
                if isinstance(k, dict):
                    c = copy.deepcopy(case)
                    c["ops"][i]["key"][j] = 0
                    yield c
                    if "slice" in k and k["slice"] != [None, None, None]:
                        c = copy.deepcopy(case)
                        c["ops"][i]["key"][j] = {"slice": [None, None, None]}
                        yield c
                elif k != 0:
                    c = copy.deepcopy(case)
                    c["ops"][i]["key"][j] = 0
                    yield c


def _never_written():
    return "never-written"


def _key(k):
    """JSON key -> Python key; {'np': n} is a NumPy integer (what index arithmetic on arrays produces); a key
    written {'bare': x} is passed as x itself, not wrapped in a tuple (arr[1], arr[:], arr.dump(1, v))."""
    if isinstance(k, dict) and "bare" in k:
        return _key([k["bare"]])[0]
    return tuple(slice(*x["slice"]) if isinstance(x, dict) and "slice" in x else (np.int64(x["np"]) if isinstance(x, dict) else x)
                 for x in k)


class Model:
    """NumPy masked object array over the full shape + a persisted snapshot."""

    def __init__(self, full, mask):
        self.full, self.smask = tuple(full), tuple(mask)
        self.ext = tuple(s for s, m in zip(full, mask) if m)
        self.internal = tuple(s for s, m in zip(full, mask) if not m)
        self.data = np.empty(self.full, dtype=object)
        self.missing = np.ones(self.full, dtype=bool)
        self.snapshot = None

    def full_key(self, ext_key, fill=slice(None)):
        it = iter(ext_key)
        return tuple(next(it) if m else fill for m in self.smask)

    def value(self, n):
        # None is a legitimate stored value (a user function may return it): present, not masked
        if not self.internal:
            if n % 4 == 0:
                return None
            if n % 7 == 3:
                return (f"v{n}a", f"v{n}b")  # an element that is itself a sequence
            if n % 7 == 5:
                return np.array([n, n + 1])  # ... or an array (stored as one object)
            return f"v{n}"
        arr = np.empty(self.internal, dtype=object)
        for j, idx in enumerate(np.ndindex(*self.internal)):
            arr[idx] = None if (n + j) % 5 == 0 else f"v{n}." + ".".join(map(str, idx))
        return arr

    def dump(self, ext_key, value):
        sel = np.zeros(self.ext, dtype=bool)
        sel[ext_key] = True
        for e in ([()] if not self.ext else zip(*np.nonzero(sel))):
            e = tuple(int(x) for x in e)
            fk = self.full_key(e)
            if self.internal:
                self.data[fk] = value
            else:
                box = np.empty((), dtype=object)
                box[()] = value  # keep sequences / arrays as ONE object element
                self.data[fk] = box
            self.missing[fk] = False

    def masked(self):
        return np.ma.MaskedArray(self.data, mask=self.missing, dtype=object)

    def ext_missing(self):
        out = np.ones(self.ext, dtype=bool)
        for e in np.ndindex(*self.ext):
            fk = self.full_key(e, fill=0)
            out[e] = self.missing[fk]
        return out

    def sub(self, e):
        fk = self.full_key(e)
        return self.data[fk]

    def copy_state(self):
        return (self.data.copy(), self.missing.copy())

    def restore(self, st):
        self.data, self.missing = st[0].copy(), st[1].copy()


def _canon_expected(ma):
    return canon(ma)


def run_case(case, exec_seed=None, exec_tape=None):
    cwd = os.getcwd()
    try:
        return _run_case(case, exec_seed, exec_tape)
    finally:
        os.chdir(cwd)  # histories with a relative folder move the working directory around


def _run_agreement(case, tape):
    """The same history on every shipped backend; what each operation returns (or raises) must be the same everywhere."""
    from pipefunc.map import storage_registry

    viol, probes = [], {"agreement_history": 1}
    full, smask = tuple(case["full"]), tuple(case["mask"])
    ext = tuple(s for s, m in zip(full, smask) if m)
    internal = tuple(s for s, m in zip(full, smask) if not m)

    def value(op):
        data = np.empty(internal, dtype=object)
        for j, idx in enumerate(np.ndindex(*internal)):
            data[idx] = f"v{op['value']}." + ".".join(map(str, idx))
        m = np.zeros(internal, dtype=bool)
        m.flat[op["masked_at"] % m.size] = True
        return np.ma.MaskedArray(data, mask=m)

    def show(v):
        try:
            return repr(canon(v))[:400]
        except Exception as e:  # noqa: BLE001
            return f"<uncanonical {type(v).__name__}: {type(e).__name__}>"

    with C.Scratch() as root, warnings.catch_warnings():
        warnings.simplefilter("ignore")
        sim = C.new_sim(tape, root, preempt=0.0)
        seen = {}

        def body():
            for b in sorted(x for x in storage_registry if x != "eager_dict"):
                arr = storage_registry[b](os.path.join(root, b), ext, internal, smask)
                rec = []
                for op in case["ops"]:
                    try:
                        if op["op"] == "dump":
                            arr.dump(_key(op["key"]), value(op))
                            rec.append("ok")
                        elif op["op"] == "get":
                            rec.append(show(arr[_key(op["key"])]))
                        elif op["op"] == "to_array":
                            rec.append(show(arr.to_array(splat_internal=op["splat"])))
                        elif op["op"] == "mask_linear":
                            rec.append(repr([bool(x) for x in arr.mask_linear()]))
                        else:
                            rec.append(repr([(bool(arr.has_index(i)), show(arr.get_from_index(i)) if arr.has_index(i) else None)
                                             for i in range(int(np.prod(ext)))]))
                    except Exception as e:  # noqa: BLE001
                        rec.append(f"raised {type(e).__name__}")
                seen[b] = rec

        with sim:
            sim.kernel.run(body)
        simmanager.shutdown_all(sim)
    names = sorted(seen)
    for i, op in enumerate(case["ops"]):
        outs = {b: seen[b][i] for b in names}
        if len(set(outs.values())) > 1:
            viol.append({"property": PID, "oracle": "agreement", "kind": f"backends-disagree:{op['op']}",
                         "detail": {"step": i, "op": op, "results": outs, "full": case["full"], "mask": case["mask"]},
                         "signature": {"backend": "all"}})
            break
    out = {"violations": viol, "probes": probes, "evaluations": 1, "yields": sim.kernel.steps, "sim_time": 0.0,
           "exec_tape": tape.recorded(), "digest": sim.kernel.digest(), "nontrivial": [C.digest_of(case)], "sample": case}
    return out


def _run_case(case, exec_seed=None, exec_tape=None):
    C.begin_case()
    tape = Tape(exec_seed) if exec_tape is None else Tape(recorded=exec_tape)
    if case.get("agree"):
        return _run_agreement(case, tape)
    viol, probes = [], {}
    backend = case["backend"]

    def V(oracle, kind, detail=None, sig=None):
        viol.append({"property": PID, "oracle": oracle, "kind": kind, "detail": detail,
                     "signature": dict({"backend": backend}, **(sig or {}))})

    from pipefunc.map import storage_registry

    cls = storage_registry[backend]
    m = Model(case["full"], case["mask"])
    with C.Scratch() as root, warnings.catch_warnings():
        warnings.simplefilter("ignore")
        state = {"sim": None}
        folder = os.path.join(root, "arr")
        digests = []
        steps = 0

        def make():
            # "the same folder": with a relative path that is the path as seen from the current working directory
            f = os.path.relpath(folder) if case.get("relative") else folder
            kw = {"filename_template": case["template"]} if case.get("template") else {}
            if case.get("mapping"):
                import collections

                kw["mapping"] = collections.defaultdict(_never_written) if case["mapping"] == "defaultdict" else collections.Counter()
            return cls(f, m.ext, m.internal or None, m.smask if m.internal else None, **kw)

        idx = [0]
        arr_box = [None]
        kept = []
        mt_state = {"mtimes": {}, "now": 1_700_000_000}

        def segment():
            """Run ops until a reopen-with-exit (which needs a new simulated process)."""
            if arr_box[0] is None:
                arr_box[0] = make()
            if state.get("crash") is not None:
                info, state["crash"] = state["crash"], None
                try:
                    _after_crash(info)
                except (Deadlock, StepCap):
                    raise
                except Exception as e:  # noqa: BLE001
                    V("crash", f"restart-raised:{type(e).__name__}", {"exc": repr(e)[:300], "crashed_op": info["op"]}, {"frame": _frame(e)})
            ops = case["ops"]
            while idx[0] < len(ops) and not viol:
                op = ops[idx[0]]
                if op["op"] == "reopen" and op.get("exit"):
                    return
                step(op, idx[0])
                idx[0] += 1

        def step(op, i):
            arr = arr_box[0]
            o = op["op"]
            try:
                if o in ("dump", "worker_dump", "dump_while_opened"):
                    k = _key(op["key"])
                    val = m.value(op["value"])
                    if o == "dump":
                        arr.dump(k, val)
                        m.dump(k, val)
                    elif o == "dump_while_opened":
                        # while this dump is under way another thread of the process opens the same folder (a second
                        # handle: a reader, a resumed run); opening must not disturb the write in flight
                        kern = state["sim"].kernel
                        done = [False]

                        def opener():
                            try:
                                other = make()
                                other.mask_linear()
                            finally:
                                done[0] = True

                        kern.spawn(opener, f"opener{i}", proc=kern.current.proc)
                        try:
                            arr.dump(k, val)
                        finally:
                            kern.block_until(lambda: done[0], "join-opener")
                        m.dump(k, val)
                        probes["dump_while_opened"] = probes.get("dump_while_opened", 0) + 1
                    else:
                        cp = pickle.loads(pickle.dumps(arr))
                        cp.dump(k, val)
                        probes["worker_dump"] = probes.get("worker_dump", 0) + 1
                        if arr.dump_in_subprocess:
                            m.dump(k, val)
                    probes["dump"] = probes.get("dump", 0) + 1
                    for (i0, res0, exp0) in kept:
                        if canon(res0) != exp0:
                            V("aliasing", "earlier-to_array-result-changed-by-a-later-dump", {"to_array_step": i0, "dump_step": i,
                              "was": repr(exp0)[:200], "now": repr(canon(res0))[:200]})
                            return
                elif o == "get":
                    k = _key(op["key"])
                    got = arr[k]
                    exp = m.masked()[k]
                    if canon(got) != canon(exp):
                        V("model", "getitem-differs", {"step": i, "key": op["key"], "got": repr(canon(got))[:300], "expected": repr(canon(exp))[:300],
                                                       "full": case["full"], "mask": case["mask"]},
                          {"all_int": all(not (isinstance(x, dict) and "slice" in x) for x in (op["key"] if isinstance(op["key"], list) else [op["key"]["bare"]])),
                           "internal": bool(m.internal)})
                    probes["read"] = probes.get("read", 0) + 1
                elif o == "to_array":
                    splat = op["splat"]
                    if splat is True and not m.internal:
                        try:
                            arr.to_array(splat_internal=True)
                        except ValueError:
                            pass
                        else:
                            V("model", "to_array-splat-without-internal-did-not-raise", {"step": i})
                        return
                    got = arr.to_array(splat_internal=splat)
                    do_splat = bool(m.internal) if splat is None else splat
                    if do_splat or not m.internal:
                        exp = canon(m.masked())
                    else:
                        miss = m.ext_missing()
                        exp = _nest(m.ext, lambda e: MASKED if miss[e] else canon(m.sub(e)))
                    if canon(got) != exp:
                        V("model", "to_array-differs", {"step": i, "splat": splat, "got": repr(canon(got))[:300], "expected": repr(exp)[:300]})
                    else:
                        kept.append((i, got, exp))  # a result handed out is a value: later dumps must not rewrite it
                        del kept[:-3]
                    probes["read"] = probes.get("read", 0) + 1
                elif o == "mask":
                    got = np.asarray(np.ma.getdata(arr.mask)).astype(bool)
                    if got.shape != m.ext or (got != m.ext_missing()).any():
                        V("model", "mask-differs", {"step": i, "got": repr(got.tolist()), "expected": repr(m.ext_missing().tolist())})
                elif o == "mask_linear":
                    got = [bool(x) for x in arr.mask_linear()]
                    exp = [bool(x) for x in m.ext_missing().reshape(-1)]
                    if got != exp:
                        V("model", "mask_linear-differs", {"step": i, "got": got, "expected": exp})
                elif o == "index":
                    miss = m.ext_missing().reshape(-1)
                    for lin in range(len(miss)):
                        h = bool(arr.has_index(lin))
                        if h != (not miss[lin]):
                            V("model", "has_index-differs", {"step": i, "index": lin, "got": h})
                            return
                        if h:
                            e = tuple(int(x) for x in np.unravel_index(lin, m.ext))
                            got = arr.get_from_index(lin)
                            if canon(got) != canon(m.sub(e)):
                                V("model", "get_from_index-not-row-major", {"step": i, "index": lin, "got": repr(canon(got))[:200],
                                                                          "expected": repr(canon(m.sub(e)))[:200]})
                                return
                elif o in ("bad_get", "bad_dump"):
                    k = _key(op["key"])
                    before = m.copy_state()
                    try:
                        if o == "bad_get":
                            arr[k]
                        else:
                            arr.dump(k, m.value(op["value"]))
                    except IndexError:
                        probes["invalid_key_rejected"] = probes.get("invalid_key_rejected", 0) + 1
                    except Exception as e:  # noqa: BLE001
                        V("invalid-key", f"{o}-raised-{type(e).__name__}-not-IndexError", {"step": i, "key": op["key"], "exc": repr(e)[:200]})
                        return
                    else:
                        V("invalid-key", f"{o}-accepted", {"step": i, "key": op["key"], "full": case["full"], "mask": case["mask"]})
                        return
                    if (np.asarray(np.ma.getdata(arr.mask)).astype(bool) != m.ext_missing()).any():
                        V("invalid-key", "state-changed-by-rejected-key", {"step": i, "key": op["key"]})
                    del before
                elif o == "chdir":
                    d = os.path.join(root, f"cwd{i}")
                    os.makedirs(d, exist_ok=True)
                    os.chdir(d)
                    probes["chdir"] = probes.get("chdir", 0) + 1
                elif o in ("crash_dump", "crash_persist"):
                    fs = state["sim"].fs
                    info = {"op": op, "step": i, "before": m.copy_state(), "snapshot": m.snapshot}
                    if o == "crash_dump":
                        k = _key(op["key"])
                        val = m.value(op["value"])
                        sel = np.zeros(m.ext, dtype=bool)
                        sel[k] = True
                        info["elements"] = []
                        for e in ([()] if not m.ext else zip(*np.nonzero(sel))):
                            e = tuple(int(x) for x in e)
                            st = m.copy_state()
                            old_missing, old_c = bool(m.ext_missing()[e]), canon(m.sub(e))
                            m.dump(e, val)
                            info["elements"].append((e, old_missing, old_c, canon(m.sub(e))))
                            m.restore(st)
                        info["value"] = val
                    else:
                        info["after"] = m.copy_state()
                    state["crash"] = info
                    fs.crash_at, fs.torn_bytes = fs.n + 1 + op["at"], op.get("torn")
                    if o == "crash_dump":
                        arr.dump(k, val)
                    else:
                        arr.persist()
                    fs.crash_at = None
                    info["completed"] = True  # the operation returned; the process dies right afterwards
                    fs.do_crash("after " + o)
                    raise SimCrash
                elif o == "persist":
                    arr.persist()
                    m.snapshot = m.copy_state()
                    probes["persist"] = probes.get("persist", 0) + 1
                elif o == "reopen":
                    _reopen()
            except (Deadlock, StepCap):
                raise
            except Exception as e:  # noqa: BLE001
                V("no-raise", f"{o}-raised:{type(e).__name__}", {"step": i, "op": op, "exc": repr(e)[:300], "full": case["full"], "mask": case["mask"]},
                  {"frame": _frame(e), "internal_before_external": _internal_before_external(case["mask"])})

        def _after_crash(info):
            """First thing after the restart that follows a crash inside dump/persist: every element is either what it
            was or what the interrupted operation was writing - readable, never garbage, never lost."""
            arr = arr_box[0]
            op = info["op"]
            if backend == "file_array":
                if op["op"] != "crash_dump":
                    return  # persist is a no-op for files: nothing may have changed (the next ops compare)
                for e, old_missing, old_c, new_c in info["elements"]:
                    lin = int(np.ravel_multi_index(e, m.ext))
                    if not arr.has_index(lin):
                        if not old_missing:
                            V("crash", "element-lost-by-interrupted-dump", {"element": e, "crashed_op": op})
                            return
                        continue
                    got = canon(arr.get_from_index(lin))
                    if got == new_c:
                        m.dump(e, info["value"])
                        probes["interrupted_dump_took_effect"] = probes.get("interrupted_dump_took_effect", 0) + 1
                    elif old_missing or got != old_c:
                        V("crash", "element-neither-old-nor-new", {"element": e, "got": repr(got)[:200], "crashed_op": op})
                        return
                return
            # dict backends: memory is gone; the persisted snapshot is the old one, or (crash inside persist) old or new
            cands = [info["snapshot"]]
            if op["op"] == "crash_persist":
                cands.append(info["after"])
            got_mask = np.asarray(np.ma.getdata(arr.mask)).astype(bool)
            for c in cands:
                if c is None:
                    c = (np.empty(m.full, dtype=object), np.ones(m.full, dtype=bool))
                m.restore(c)
                if got_mask.shape == m.ext and not (got_mask != m.ext_missing()).any() and \
                        canon(arr.to_array(splat_internal=bool(m.internal))) == canon(m.masked()):
                    m.snapshot = None if c is cands[0] and info["snapshot"] is None else m.copy_state()
                    if c is not cands[0]:
                        probes["interrupted_persist_took_effect"] = probes.get("interrupted_persist_took_effect", 0) + 1
                    return
            V("crash", "state-after-interrupted-" + op["op"][6:] + "-is-neither-old-nor-new", {"crashed_op": op, "mask": got_mask.tolist()})

        def _reopen():
            probes["reopen"] = probes.get("reopen", 0) + 1
            if backend != "file_array":
                if m.snapshot is None:
                    m.restore((np.empty(m.full, dtype=object), np.ones(m.full, dtype=bool)))
                else:
                    m.restore(m.snapshot)
            arr_box[0] = make()

        cwd0 = os.getcwd()
        if case.get("relative"):
            os.chdir(root)
            probes["relative_folder"] = 1
        while idx[0] < len(case["ops"]) and not viol:
            sim = C.new_sim(tape, root, preempt=0.4, step_cap=400000 if case.get("big") else 20000)  # (pre-emption only matters while a second thread exists)
            sim.fs.coarse_mtime = bool(case.get("coarse_mtime"))
            sim.fs.mtimes, sim.fs.mtime_now = mt_state["mtimes"], mt_state["now"]
            state["sim"] = sim
            crashed = False
            with sim:
                try:
                    sim.kernel.run(segment)
                except SimCrash:
                    crashed = True
                except (Deadlock, StepCap) as e:
                    V("liveness", type(e).__name__, str(e))
            steps += sim.kernel.steps
            digests.append(sim.kernel.digest())
            mt_state["now"] = sim.fs.mtime_now  # file timestamps are durable state: they survive the process
            simmanager.shutdown_all(sim)  # process exit: manager processes die
            if crashed and not viol:
                probes["crash"] = probes.get("crash", 0) + 1
                if sim.probes.get("torn_write"):
                    probes["torn_write"] = probes.get("torn_write", 0) + 1
                arr_box[0] = None
                idx[0] += 1
                if idx[0] >= len(case["ops"]):
                    sim = C.new_sim(tape, root, preempt=0.0)
                    state["sim"] = sim
                    with sim:
                        def tail2():
                            segment()
                            step({"op": "mask_linear"}, idx[0])
                            step({"op": "index"}, idx[0])
                        try:
                            sim.kernel.run(tail2)
                        except (Deadlock, StepCap) as e:
                            V("liveness", type(e).__name__, str(e))
                    simmanager.shutdown_all(sim)
                continue
            if idx[0] < len(case["ops"]) and not viol:
                # the pending op is a reopen after process exit
                probes["process_exit"] = probes.get("process_exit", 0) + 1
                if backend != "file_array":
                    if m.snapshot is None:
                        m.restore((np.empty(m.full, dtype=object), np.ones(m.full, dtype=bool)))
                    else:
                        m.restore(m.snapshot)
                arr_box[0] = None
                probes["reopen"] = probes.get("reopen", 0) + 1
                idx[0] += 1
                if idx[0] >= len(case["ops"]):
                    # make sure the reopened array is at least constructed and read once
                    case_ops_tail = True
                    sim = C.new_sim(tape, root, preempt=0.0)
                    with sim:
                        def tail():
                            arr_box[0] = make()
                            step({"op": "mask_linear"}, idx[0])
                        try:
                            sim.kernel.run(tail)
                        except (Deadlock, StepCap) as e:
                            V("liveness", type(e).__name__, str(e))
                    simmanager.shutdown_all(sim)
                    del case_ops_tail
        os.chdir(cwd0)
    probes[f"backend:{backend}"] = 1
    if m.internal:
        probes["internal_axes"] = 1
    if case.get("coarse_mtime"):
        probes["coarse_mtime"] = 1
    if case.get("template"):
        probes["filename_template"] = 1
    out = {"violations": viol, "probes": probes, "evaluations": 1, "yields": steps, "sim_time": 0.0,
           "exec_tape": tape.recorded(), "digest": C.digest_of(digests), "nontrivial": []}
    if probes.get("dump") and probes.get("read"):
        out["nontrivial"] = [C.digest_of(case)]
    out["sample"] = case
    return out


def _nest(shape, f, prefix=()):
    if len(prefix) == len(shape):
        return f(prefix)
    return tuple(_nest(shape, f, prefix + (i,)) for i in range(shape[len(prefix)]))


def _internal_before_external(mask):
    seen_internal = False
    for mm in mask:
        if not mm:
            seen_internal = True
        elif seen_internal:
            return True
    return False


def _frame(e):
    tb = e.__traceback__
    frame = None
    while tb is not None:
        fn = tb.tb_frame.f_code.co_filename
        if "/pipefunc/" in fn:
            frame = f"{fn.split('/pipefunc/')[-1]}:{tb.tb_frame.f_code.co_name}"
        tb = tb.tb_next
    return frame
