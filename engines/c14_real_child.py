"""Real second interpreter for DiskCache (run as a script, so that `K` lives in `__main__`).

  c14_real_child.py put   <dir> <spec.json>    process A: open the directory, put every key of the spec
  c14_real_child.py check <dir> <spec.json>    process B (fresh interpreter, other PYTHONHASHSEED): reopen the same
                                               directory; every key that was not evicted must be present with its
                                               value, and putting it again must not add an entry

The keys include instances of a class that is defined in the script itself - the cache keys pipefunc builds contain
the user's argument values, whatever their type - and tuples around them.  Prints one JSON object; exit 0 = fine,
1 = mismatch, 3 = exception."""
from __future__ import annotations

import json
import os
import sys
import traceback
import warnings

VERIF = os.path.dirname(os.path.dirname(os.path.abspath(__file__)))
if VERIF not in sys.path:
    sys.path.insert(0, VERIF)


class K:
    """A hashable user value defined in the program that uses the cache."""

    def __init__(self, v):
        self.v = v

    def __eq__(self, other):
        return type(other).__name__ == "K" and self.v == other.v

    def __hash__(self):
        return hash(("K", self.v))

    def __repr__(self):
        return f"K({self.v!r})"


def make_key(name):
    from pipefunc.cache import to_hashable

    return {
        "str": "plain",
        "int": 7,
        "tuple": ("f0", ("x", 1), ("y", "two")),
        "K": K(1),
        "tupleK": ("f1", (("a", K("a")), ("b", 2))),
        "hashable-set": ("f2", to_hashable({"alpha", "beta", "gamma", "delta"})),
        "hashable-dict": ("f3", to_hashable({"p": {1, 2, 3}, "q": [K(2), "z"]})),
        "frozenset": frozenset({"alpha", "beta", "gamma", "delta", "epsilon"}),
    }[name]


def main(argv):
    role, folder, spec_path = argv
    warnings.simplefilter("ignore")
    from sim.bootstrap import boot

    boot()
    from pipefunc.cache import DiskCache

    with open(spec_path) as f:
        spec = json.load(f)
    c = DiskCache(folder, max_size=spec.get("max_size"), use_cloudpickle=spec["use_cloudpickle"],
                  with_lru_cache=spec["with_lru"], lru_shared=False)
    names = spec["keys"]
    if role == "put":
        for n in names:
            c.put(make_key(n), f"val-{n}")
        print(json.dumps({"len": len(c)}))
        return 0
    res = {"missing": [], "wrong": [], "len_before": len(c), "len_after": None}
    for n in names:
        k = make_key(n)
        if k not in c:
            res["missing"].append(n)
            continue
        got = c.get(k)
        if got != f"val-{n}":
            res["wrong"].append([n, repr(got)])
    for n in names:
        c.put(make_key(n), f"val-{n}")
    res["len_after"] = len(c)
    print(json.dumps(res))
    ok = not res["missing"] and not res["wrong"] and res["len_before"] == len(names) == res["len_after"]
    return 0 if ok else 1


if __name__ == "__main__":
    try:
        sys.exit(main(sys.argv[1:]))
    except Exception:  # noqa: BLE001
        print("EXCEPTION " + traceback.format_exc()[-1500:])
        sys.exit(3)
