"""Batch runner: fresh worker interpreters, seeds, budgets, evidence, replay files (DESIGN 2.6/2.7)."""
from __future__ import annotations

import collections
import contextlib
import faulthandler
import hashlib
import importlib
import io
import itertools
import json
import os
import subprocess
import sys
import time
import traceback

from . import env as simenv
from . import findings
from .tape import Tape, derive_seed

VERIF = os.path.dirname(os.path.dirname(os.path.abspath(__file__)))
PY = sys.executable

ENGINES = {
    "C03": "engines.c03_schedules",
    "C04": "engines.c04_reload",
    "C05": "engines.c05_crash",
    "C06": "engines.c06_parts",
    "C07": "engines.c07_storage",
    "C09": "engines.c09_cache_twin",
    "C13": "engines.c13_failures",
    "C14": "engines.c14_caches",
}

LEVELS = {"C03": "exploration", "C04": "exploration", "C05": "fault_enumeration", "C06": "exploration",
          "C07": "exploration", "C09": "exploration", "C13": "fault_enumeration", "C14": "exploration"}


def engine(pid):
    if VERIF not in sys.path:
        sys.path.insert(0, VERIF)
    return importlib.import_module(ENGINES[pid])


class HarnessError(Exception):
    pass


def digest_case(case):
    return hashlib.sha256(json.dumps(case, sort_keys=True, default=repr).encode()).hexdigest()[:12]


# ---------------------------------------------------------------------------- violations
def vclass(v):
    return (v["oracle"], v["kind"])


def jsonable(x):
    """Best-effort conversion for evidence / replay detail fields."""
    try:
        json.dumps(x)
        return x
    except (TypeError, ValueError):
        pass
    if isinstance(x, dict):
        return {str(k): jsonable(v) for k, v in x.items()}
    if isinstance(x, (list, tuple, set, frozenset)):
        return [jsonable(v) for v in x]
    return repr(x)


# ---------------------------------------------------------------------------- one run
def run_index(eng, pid, verif_seed, idx, tier):
    """Generate case `idx` and execute it.  Returns the engine outcome dict."""
    wtape = Tape(derive_seed(verif_seed, pid, idx, "workload"))
    case = eng.gen_case(wtape, tier)
    if case is None:
        return {"discarded": True, "violations": [], "probes": {}}
    env = simenv.gen_env(wtape)  # drawn after the case, so that the case itself is what it always was
    if env:
        case["env"] = env
    eseed = derive_seed(verif_seed, pid, idx, "exec")
    out = run_case(eng, case, exec_seed=eseed)
    if env:
        out.setdefault("probes", {})
        for k in env:
            out["probes"][f"env:{k}"] = out["probes"].get(f"env:{k}", 0) + 1
    out["case"] = case
    out["exec_seed"] = eseed
    return out


def _keep_env(cands, case):
    """Engine simplifications rebuild cases; the environment travels with them."""
    env = case.get("env")
    for c in cands:
        if env and "env" not in c:
            c = dict(c, env=env)
        yield c


def run_case(eng, case, **kw):
    """Execute a case inside its environment (sim/env.py)."""
    simenv.set_env(case.get("env"))
    try:
        if simenv.get("stdout"):
            with contextlib.redirect_stdout(simenv.stdout_sink()):
                return eng.run_case(case, **kw)
        return eng.run_case(case, **kw)
    finally:
        simenv.set_env(None)


# ---------------------------------------------------------------------------- shrinking
def shrink(eng, case, tape, target, budget_s=25.0, max_tries=400):
    """Greedy minimisation keeping the violation class `target` (DESIGN 2.6)."""
    t0 = time.monotonic()
    tries = 0

    def still(c, tp):
        nonlocal tries
        tries += 1
        try:
            with quiet():
                out = run_case(eng, c, exec_tape=tp)
        except Exception:  # noqa: BLE001 - a candidate that breaks the harness is not a reproduction
            return None
        for v in out["violations"]:
            if vclass(v) == target:
                return out
        return None

    def over():
        return time.monotonic() - t0 > budget_s or tries > max_tries

    best_case, best_tape = case, list(tape)
    base = still(best_case, best_tape)
    if base is None:
        return best_case, best_tape, False
    best_tape = base["exec_tape"]
    # 1. workload / fault plan / config simplification
    progress = True
    while progress and not over():
        progress = False
        for cand in itertools.chain(simenv.simplify(best_case), _keep_env(eng.simplify(best_case), best_case)):
            if over():
                break
            o = still(cand, best_tape)
            if o is not None:
                best_case, best_tape = cand, o["exec_tape"]
                progress = True
                break
    # 2. schedule tape: all-zero, truncation, zeroing blocks
    if not over():
        o = still(best_case, [])
        if o is not None:
            best_tape = []
    n = len(best_tape)
    block = max(1, n // 2)
    while block >= 1 and n and not over():
        i = 0
        changed = False
        while i < len(best_tape) and not over():
            if any(best_tape[i:i + block]):
                cand = best_tape[:i] + [0] * len(best_tape[i:i + block]) + best_tape[i + block:]
                o = still(best_case, cand)
                if o is not None:
                    best_tape = cand
                    changed = True
            i += block
        if block == 1 and not changed:
            break
        block = block // 2 if block > 1 else (1 if changed else 0)
    while best_tape and best_tape[-1] == 0:
        best_tape.pop()
    return best_case, best_tape, True


@contextlib.contextmanager
def quiet():
    """pipefunc prints from library code; keep worker output clean (never touches the tape)."""
    with contextlib.redirect_stdout(io.StringIO()):
        yield


# ---------------------------------------------------------------------------- replay files
def write_replay(pid, verif_seed, idx, case, tape, v, digest, known=None):
    os.makedirs(os.path.join(VERIF, "replays"), exist_ok=True)
    body = {
        "property": pid,
        "engine": ENGINES[pid],
        "verif_seed": verif_seed,
        "run_index": idx,
        "pythonhashseed": os.environ.get("PYTHONHASHSEED", "random"),
        "case": case,
        "exec_tape": tape,
        "expect": {"oracle": v["oracle"], "kind": v["kind"], "detail": jsonable(v.get("detail"))},
        "signature": jsonable(v.get("signature")),
        "digest": digest,
    }
    # NOT sort_keys: dict order inside a case (inputs, functions) is part of the case - it decides e.g. the
    # order in which input files are written - and must survive the round trip through the replay file
    blob = json.dumps(body, indent=1, default=repr)
    h = hashlib.sha256(json.dumps([case, tape], sort_keys=True, default=repr).encode()).hexdigest()[:10]
    path = os.path.join(VERIF, "replays", f"{pid}-{verif_seed}-{idx}-{h}.json")
    with open(path, "w") as f:
        f.write(blob)
    return path


def replay_file(path):
    """Re-execute a replay file in this interpreter.  Returns (reproduced, outcome, body)."""
    with open(path) as f:
        body = json.load(f)
    eng = engine(body["property"])
    with quiet():
        out = run_case(eng, body["case"], exec_tape=body["exec_tape"])
    exp = (body["expect"]["oracle"], body["expect"]["kind"])
    rep = any(vclass(v) == exp for v in out["violations"])
    if rep and body.get("digest") and out.get("digest") != body["digest"]:
        rep = False
        out["digest_mismatch"] = (body["digest"], out.get("digest"))
    return rep, out, body


# ---------------------------------------------------------------------------- worker
def worker_main(argv):
    """check.py worker <pid> <verif_seed> <start> <count> <tier> <budget_s> <outfile>"""
    pid, verif_seed, start, count, tier, budget, outfile = argv
    verif_seed, start, count, budget = int(verif_seed), int(start), int(count), float(budget)
    faulthandler.enable()
    faulthandler.dump_traceback_later(budget * 3 + 120, exit=True)
    from .bootstrap import boot

    boot()
    eng = engine(pid)
    t0 = time.monotonic()
    agg = {
        "runs": 0, "discarded": 0, "probes": collections.Counter(), "nontrivial": set(), "samples": [],
        "violations": [], "errors": [], "sim_time": 0.0, "yields": 0, "digests": [], "stopped_early": False,
        "evaluations": 0,
    }
    seen_classes = set()
    known = findings.load_known()
    n_minimised = 0
    for idx in range(start, start + count):
        if time.monotonic() - t0 > budget:
            agg["stopped_early"] = True
            break
        try:
            with quiet():
                out = run_index(eng, pid, verif_seed, idx, tier)
        except Exception:  # noqa: BLE001
            agg["errors"].append({"idx": idx, "trace": traceback.format_exc()[-3000:]})
            if len(agg["errors"]) > 3:
                break
            continue
        if out.get("discarded"):
            agg["discarded"] += 1
            continue
        agg["runs"] += 1
        agg["evaluations"] += out.get("evaluations", 1)
        agg["probes"].update(out.get("probes", {}))
        agg["sim_time"] += out.get("sim_time", 0.0)
        agg["yields"] += out.get("yields", 0)
        for key in out.get("nontrivial", ()):
            agg["nontrivial"].add(key)
        if len(agg["samples"]) < 2 and out.get("sample") is not None:
            agg["samples"].append(out["sample"])
        if idx < start + 4:
            agg["digests"].append([idx, out.get("digest")])
        for v in out["violations"]:
            cls = vclass(v)
            k = findings.match_known(pid, cls, v.get("signature"), known)
            fkey = ("known", k["id"]) if k is not None else (cls, json.dumps(jsonable(v.get("signature")), sort_keys=True))
            if fkey in seen_classes:
                agg["probes"]["violation_dup"] += 1
                continue
            seen_classes.add(fkey)
            case, tape = v.get("case", out["case"]), v.get("exec_tape", out["exec_tape"])
            if out["case"].get("env") and "env" not in case:
                case = dict(case, env=out["case"]["env"])  # plan-cases built by the engine inherit the environment
            try:
                if n_minimised < 6:
                    n_minimised += 1
                    scase, stape, ok = shrink(eng, case, tape, cls, budget_s=15.0)
                else:
                    scase, stape = case, tape
                    agg["probes"]["violation_not_minimised"] += 1
                with quiet():
                    fin = run_case(eng, scase, exec_tape=stape)
                fv = next((x for x in fin["violations"] if vclass(x) == cls), None)
                if fv is None:
                    raise HarnessError(f"violation {cls} did not reproduce in-process after shrinking")
                path = write_replay(pid, verif_seed, idx, scase, fin["exec_tape"], fv, fin.get("digest"))
                agg["violations"].append({"class": list(cls), "replay": path, "detail": jsonable(fv.get("detail")),
                                          "signature": jsonable(fv.get("signature")), "idx": idx})
            except Exception:  # noqa: BLE001
                agg["errors"].append({"idx": idx, "trace": traceback.format_exc()[-3000:]})
    agg["probes"] = dict(agg["probes"])
    agg["nontrivial"] = sorted(agg["nontrivial"])
    agg["wall"] = time.monotonic() - t0
    with open(outfile, "w") as f:
        json.dump(agg, f, default=repr)
    faulthandler.cancel_dump_traceback_later()
    return 0


# ---------------------------------------------------------------------------- parent
def spawn_workers(pid, verif_seed, tier, total, procs, budget, hashseeds, scratch):
    per = (total + procs - 1) // procs
    ps = []
    for w in range(procs):
        out = os.path.join(scratch, f"{pid}-w{w}.json")
        env = dict(os.environ)
        env["PYTHONHASHSEED"] = str(hashseeds[w % len(hashseeds)])
        env["PYTHONDONTWRITEBYTECODE"] = "1"
        cmd = [PY, os.path.join(VERIF, "check.py"), "worker", pid, str(verif_seed), str(w * per), str(per),
               tier, str(budget), out]
        log = open(os.path.join(scratch, f"{pid}-w{w}.log"), "w")
        ps.append((subprocess.Popen(cmd, env=env, stdout=log, stderr=subprocess.STDOUT, cwd=VERIF), out, log, w))
    return ps


def collect(ps, timeout):
    t0 = time.monotonic()
    results, errors = [], []
    for p, out, log, w in ps:
        left = max(1.0, timeout - (time.monotonic() - t0))
        try:
            rc = p.wait(timeout=left)
        except subprocess.TimeoutExpired:
            p.kill()
            p.wait()
            errors.append(f"worker {w} exceeded the wall timeout")
            continue
        finally:
            log.close()
        if rc != 0 or not os.path.exists(out):
            tail = ""
            with contextlib.suppress(OSError):
                with open(log.name) as f:
                    tail = f.read()[-2000:]
            errors.append(f"worker {w} exit {rc}: {tail}")
            continue
        with open(out) as f:
            results.append(json.load(f))
    return results, errors
