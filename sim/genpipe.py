"""Workload generator: random map pipelines from the tape (DESIGN 2.5).

A workload is a JSON-able dict, so that a replay file can rebuild it without the PRNG.
"""
from __future__ import annotations

import numpy as np

from .userfuncs import Fn, canon

IDX_NAMES = ["i", "j", "k", "l", "m", "n", "p", "q", "r", "t"]


# ------------------------------------------------------------------ generation
def _axis_size(tape, max_size):
    """1..max_size, and now and then 0: an empty axis is a valid input (no element is computed)."""
    if tape.coin(0.05, "empty-axis"):
        return 0
    if tape.coin(0.06, "long-axis"):
        return max_size + 1 + tape.choose(2, "long-size")  # now and then longer than the usual bound
    return 1 + tape.choose(max_size, "axis-size")


def gen_workload(tape, *, max_funcs=5, max_size=3, allow_gen=True, allow_tuple=True,
                 allow_nomap=True, allow_partial=True, min_funcs=1, allow_defaults=True):
    idx_size: dict = {}
    arrays: dict = {}  # value name -> tuple of axes (root arrays and outputs)
    scalars: list = []  # scalar value names (root scalars and un-mapped outputs)
    inputs: dict = {}
    funcs: list = []
    counters = {"x": 0, "s": 0, "b": 0}

    def new_index():
        name = IDX_NAMES[len(idx_size)]
        idx_size[name] = _axis_size(tape, max_size)
        return name

    def some_index():
        if idx_size and len(idx_size) >= len(IDX_NAMES) - 2:
            return tape.pick(sorted(idx_size), "idx")
        if idx_size and tape.coin(0.6, "reuse-idx"):
            return tape.pick(sorted(idx_size), "idx")
        return new_index()

    def new_root_array():
        name = f"x{counters['x']}"
        counters["x"] += 1
        rank = 1 if tape.coin(0.7, "rank1") else 2
        axes = []
        for _ in range(rank):
            a = some_index()
            if a in axes:
                a = new_index()
            axes.append(a)
        kind = "list" if rank == 1 and tape.coin(0.5, "list") else "ndarray"
        inputs[name] = {"axes": axes, "kind": kind, "base": 100 * (len(inputs) + 1)}
        if kind == "list" and tape.coin(0.1, "list-of-arrays"):
            inputs[name]["elements"] = "arrays"
        elif kind == "list" and tape.coin(0.1, "range-input"):
            inputs[name]["elements"] = "range"  # the mapped input is a range object
        arrays[name] = tuple(axes)
        return name

    def new_root_scalar():
        name = ("_s" if tape.coin(0.08, "underscore-name") else "s") + str(counters["s"])  # `_shift` is a valid parameter name
        counters["s"] += 1
        inputs[name] = {"axes": [], "kind": "scalar", "base": 0,
                        "value": tape.pick(["str", "str", "str", "zero", "empty", "none", "false", "tuple", "float", "nan", "unicode", "inf", "floatlist", "masked-view"], "scalar-value")}
        if tape.coin(0.03, "long-argument"):
            inputs[name]["value"] = "longlist"  # a table of a few thousand numbers passed along as one argument
        scalars.append(name)
        return name

    nf = min_funcs + tape.choose(max_funcs - min_funcs + 1, "nfuncs")
    for k in range(nf):
        kinds = ["map", "map", "map"]
        if allow_nomap:
            kinds.append("nomap")
        if allow_gen:
            kinds.append("gen")
        kind = tape.pick(kinds, "fkind")
        nparams = 1 + tape.choose(3, "nparams")
        params: list = []
        for _ in range(nparams):
            srcs = ["new-array"]
            if arrays:
                srcs += ["array", "array", "array"]
            if scalars:
                srcs.append("scalar")
            srcs.append("new-scalar")
            s = tape.pick(srcs, "psrc")
            if s == "array":
                p = tape.pick(sorted(arrays), "parray")
            elif s == "new-array":
                p = new_root_array()
            elif s == "scalar":
                p = tape.pick(sorted(scalars), "pscalar")
            else:
                p = new_root_scalar()
            if p not in params:
                params.append(p)
        fd = {"name": f"f{k}", "params": list(params), "mapspec": None, "out_shape": None,
              "defaults": {}, "bound": {}, "sig_defaults": {}}
        n_out = 2 if allow_tuple and tape.coin(0.2, "tuple-out") else 1
        if n_out == 2 and tape.coin(0.25, "three-outputs"):
            n_out = 3
        outs = [f"o{k}"] if n_out == 1 else [f"o{k}{c}" for c in "abc"[:n_out]]
        fd["outputs"] = outs
        if n_out == 1 and kind != "gen" and tape.coin(0.12, "returns-none"):
            fd["none_mod"] = 2 + tape.choose(2, "none-mod")
        if tape.coin(0.15, "element-scope"):
            fd["resources_scope"] = "element"  # learners are then split per element
        if tape.coin(0.12, "renames"):
            cand = [p_ for p_ in fd["params"] if p_ not in fd["sig_defaults"]]
            if cand:
                fd["renamed"] = [tape.pick(cand, "renamed-param")]  # the function's own name differs (PipeFunc renames)
        if n_out >= 2 and tape.coin(0.3, "dict-out"):
            fd["dict_out"] = True  # returns {name: value}, picked by a custom output_picker
        if tape.coin(0.08, "debug-flag"):
            fd["debug"] = True
        if tape.coin(0.05, "profile-flag"):
            fd["profile"] = True  # every call runs under a ResourceProfiler (a real sampling thread)
        if tape.coin(0.1, "closure"):
            fd["closure"] = True  # the user function is a closure (only cloudpickle can serialise it)
        if tape.coin(0.06, "resources-variable"):
            fd["resources_var"] = True  # the function receives its Resources through an extra argument `res`
            fd["params"].append("res")
        if tape.coin(0.1, "scribbles"):
            fd["scribbles"] = True  # the function overwrites, in place, the arrays pipefunc computed and handed to it
        if n_out == 1 and kind != "gen" and tape.coin(0.1, "sequence-valued"):
            fd["seq_out"] = "list" if tape.coin(0.6, "list-valued") else True  # each element / the single result is a 2-tuple or a list
        elif n_out == 1 and kind != "gen" and tape.coin(0.1, "result-like"):
            fd["result_like"] = True  # the value has a .result() method of its own
        elif n_out == 1 and kind != "gen" and tape.coin(0.08, "data-like"):
            fd["data_like"] = True  # the value has _data / _mask attributes of its own
        elif n_out == 1 and kind != "gen" and tape.coin(0.08, "await-like"):
            fd["data_like"] = "await"  # the value is awaitable
        # extra bound / default parameters
        if allow_defaults and tape.coin(0.15, "bound"):
            b = f"b{counters['b']}"
            counters["b"] += 1
            fd["params"].append(b)
            fd["bound"][b] = f"{b}-bound"
        if allow_defaults and tape.coin(0.2, "default"):
            d = f"d{counters['b']}"
            counters["b"] += 1
            fd["params"].append(d)
            where = tape.pick(["sig", "pipefunc"], "default-where")
            (fd["sig_defaults"] if where == "sig" else fd["defaults"])[d] = f"{d}-default"
            if where == "pipefunc" and tape.coin(0.15, "string-array-default"):
                fd["defaults"][d] = f"<strarr>{d}"  # a NumPy array of strings: `==`/array_equal(equal_nan) cannot compare it
            # sometimes the caller overrides the default through `inputs`
            inputs[d] = {"axes": [], "kind": "default", "base": 0,
                         "provided": bool(tape.coin(0.4, "default-provided"))}

        out_axes: list = []
        if kind != "nomap":
            in_specs = []
            for p in params:
                if p not in arrays:
                    continue
                axes = arrays[p]
                use = tape.pick(["full", "full", "full", "partial", "whole"] if allow_partial
                                else ["full", "full", "whole"], "use")
                if use == "whole":
                    continue
                spec = []
                for a in axes:
                    if use == "partial" and tape.coin(0.5, "colon"):
                        spec.append(":")
                    else:
                        spec.append(a)
                        if a not in out_axes:
                            out_axes.append(a)
                if all(s == ":" for s in spec):
                    continue
                in_specs.append(f"{p}[{', '.join(spec)}]")
            if len(out_axes) > 1 and tape.coin(0.3, "permute-out"):
                out_axes = tape.shuffle(out_axes, "out-order")
            internal = None
            if (kind == "gen" or not in_specs) and allow_gen:
                internal = IDX_NAMES[len(idx_size)] if len(idx_size) < len(IDX_NAMES) else None
                if internal is not None:
                    idx_size[internal] = 1 + tape.choose(max_size, "axis-size")  # internal axes are never empty
                    pos = tape.choose(len(out_axes) + 1, "internal-pos")
                    out_axes.insert(pos, internal)
                    fd["out_shape"] = [idx_size[internal]]
                    if tape.coin(0.3, "shape-as-int"):
                        fd["shape_int"] = True  # the size of the generated axis is given as a bare int, not a 1-tuple
            if out_axes and (in_specs or internal):
                lhs = ", ".join(in_specs) if in_specs else "..."
                rhs = ", ".join(f"{o}[{', '.join(out_axes)}]" for o in outs)
                fd["mapspec"] = f"{lhs} -> {rhs}"
            else:
                out_axes = []
        funcs.append(fd)
        for o in outs:
            if out_axes:
                arrays[o] = tuple(out_axes)
            else:
                scalars.append(o)
    _none_only_for_leaves(funcs)
    _maybe_same_names(tape, funcs)
    if tape.coin(0.12, "scoped-inputs"):
        roots = [n for n, d in inputs.items() if d["kind"] in ("scalar", "list", "ndarray")]
        if len(roots) >= 2:
            chosen = tape.shuffle(roots, "scope-pick")[: 2 + tape.choose(2, "scope-n")]
            inputs = _apply_scope(funcs, inputs, chosen, "sc")
    # mapped root arrays and function defaults: the array a map runs over may come from a default only, or a
    # default of another length may be overridden by the caller's input (which then decides shape and values)
    if allow_defaults:
        for name in sorted(inputs):
            d = inputs[name]
            users = [fd for fd in funcs if name in fd["params"]]
            if d["kind"] not in ("list", "ndarray") or len(users) != 1:
                continue
            if tape.coin(0.07, "array-from-default"):
                d["via_default"] = True
            elif tape.coin(0.08, "shadowed-array-default"):
                d["shadow_default"] = tape.pick([-1, 0, 1], "shadow-len")  # default is shorter than / as long as / longer than the input
    w = {"indices": idx_size, "inputs": inputs, "functions": funcs,
         "internal_via": tape.pick(["pipefunc", "map-arg", "both"], "internal-via")}
    if tape.coin(0.06, "long-names"):
        # descriptive output names, longer than any length somebody might have thought "long enough" for a file name
        ren = {o: o + "_" + "of_the_measurement_series" * 3 for fd in funcs for o in fd["outputs"]}
        _rename_values(w, ren)
    if tape.coin(0.07, "greek-axes"):
        _rename_axes(w, dict(zip(IDX_NAMES, GREEK)))  # index names are identifiers: non-ASCII letters are fine
    return w


GREEK = ["θ", "φ", "ψ", "λ", "μ", "ν", "ξ", "ρ", "σ", "τ"]


def _rename_values(w, ren):
    import re

    pat = re.compile(r"(?<![\w.])(" + "|".join(map(re.escape, sorted(ren, key=len, reverse=True))) + r")(?![\w.])")
    for fd in w["functions"]:
        fd["outputs"] = [ren.get(o, o) for o in fd["outputs"]]
        fd["params"] = [ren.get(p_, p_) for p_ in fd["params"]]
        if fd.get("renamed"):
            fd["renamed"] = [ren.get(p_, p_) for p_ in fd["renamed"]]
        if fd.get("mapspec"):
            fd["mapspec"] = pat.sub(lambda m: ren[m.group(1)], fd["mapspec"])


def _rename_axes(w, ren):
    import re

    pat = re.compile(r"(?<![\w.])(" + "|".join(map(re.escape, ren)) + r")(?![\w.])")
    w["indices"] = {ren.get(a, a): n for a, n in w["indices"].items()}
    for d in w["inputs"].values():
        d["axes"] = [ren.get(a, a) for a in d["axes"]]
    for fd in w["functions"]:
        if fd.get("mapspec"):
            fd["mapspec"] = pat.sub(lambda m: ren[m.group(1)], fd["mapspec"])


def _array_value(name, d, shape):
    n = int(np.prod(shape))
    if d["kind"] == "list" and d.get("elements") == "arrays":
        # a plain list of NumPy arrays with the same leading dimension and different widths (images of equal height)
        return [d["base"] + np.arange(2 * (i + 1)).reshape(2, i + 1) for i in range(n)]
    if d["kind"] == "list" and d.get("elements") == "range":
        return range(d["base"], d["base"] + n)
    if d["kind"] == "list":
        return [f"{name}.{n - 1 - i if d.get('descending') else i}" for i in range(n)]
    if d.get("descending"):  # values fall along the axis: nothing may re-sort what the caller gave
        return (d["base"] + n - 1 - np.arange(n)).reshape(shape)
    return (d["base"] + np.arange(n)).reshape(shape)


def plain_defaults(fd):
    """PipeFunc defaults of a function with the value markers expanded."""
    out = {}
    for k, v in (fd.get("defaults") or {}).items():
        if isinstance(v, str) and v.startswith("<strarr>"):
            v = np.array([f"{v[8:]}-a", f"{v[8:]}-b", f"{v[8:]}-c"])
        out[k] = v
    return out


def array_defaults(w, fd):
    """PipeFunc defaults that are arrays: {param: value} for the roots this function takes from / shadows by a default."""
    out = {}
    for name in fd["params"]:
        d = w["inputs"].get(name)
        if not d or d["kind"] not in ("list", "ndarray"):
            continue
        shape = tuple(w["indices"][a] for a in d["axes"])
        if d.get("via_default"):
            out[name] = _array_value(name, d, shape)
        elif d.get("shadow_default") is not None:
            first = max(0, shape[0] + d["shadow_default"])
            v = _array_value(name + "-default", d, (first, *shape[1:]))
            out[name] = v
    return out


def _apply_scope(funcs, inputs, names, scope):
    """Give some root inputs dotted pipeline-level names ('sc.x0'), as PipeFunc(scope=...) / renames do."""
    import re

    ren = {n: f"{scope}.{n}" for n in names}
    for fd in funcs:
        hit = [p_ for p_ in fd["params"] if p_ in ren]
        if not hit:
            continue
        fd["params"] = [ren.get(p_, p_) for p_ in fd["params"]]
        fd["renamed"] = sorted(set(fd.get("renamed", [])) - set(hit) | {ren[p_] for p_ in hit})
        fd["renamed"] = [ren.get(r, r) for r in fd["renamed"]]
        if fd.get("mapspec"):
            for old_, new_ in ren.items():
                fd["mapspec"] = re.sub(rf"(?<![\w.]){re.escape(old_)}\[", f"{new_}[", fd["mapspec"])
    return {ren.get(k, k): v for k, v in inputs.items()}


def _maybe_same_names(tape, funcs):
    """Several PipeFuncs wrapping functions with the same __name__ (one function used twice with other output names,
    lambdas, factory-made functions): only output names have to be unique."""
    if len(funcs) >= 2 and tape.coin(0.08, "same-named-functions"):
        for fd in funcs:
            if tape.coin(0.7, "shares-name"):
                fd["public_name"] = "step"


def _none_only_for_leaves(funcs):
    """A function may return None only if nobody consumes its output: as an argument None would make the
    terms of different downstream calls equal, and every exactly-once oracle relies on their injectivity."""
    used = {p for fd in funcs for p in fd["params"]}
    for fd in funcs:
        if fd.get("none_mod") and any(o in used for o in fd["outputs"]):
            del fd["none_mod"]


# ------------------------------------------------------------------ construction
def build_inputs(w):
    out = {}
    for name, d in w["inputs"].items():
        if d["kind"] == "scalar":
            out[name] = {"zero": 0, "empty": "", "none": None, "false": False, "tuple": (), "float": 1.5,
                         "nan": float("nan"), "unicode": f"{name}-välue-θ", "inf": float("inf"),
                         "floatlist": [0.5, float("-inf"), 1e300], "longlist": list(range(2600)),
                         # a transposed (non-contiguous) masked array: an ndarray subclass and a strided view at once
                         "masked-view": np.ma.masked_invalid(np.array([[1.0, float("nan"), 3.0], [4.0, 5.0, float("nan")]])).T}.get(d.get("value", "str"), f"{name}-val")
        elif d["kind"] == "default":
            if d.get("provided"):
                out[name] = f"{name}-given"
        elif d.get("via_default"):
            continue  # the array is a function default, the caller does not pass it
        else:
            shape = tuple(w["indices"][a] for a in d["axes"])
            out[name] = _array_value(name, d, shape)
    return out


def n_elements(w):
    """Stored elements a full run of the workload produces (drives the per-case yield budget)."""
    n = 0
    for fd in w["functions"]:
        ms = fd.get("mapspec")
        if not ms:
            n += len(fd["outputs"])
            continue
        axes = [a.strip() for a in ms.split("->")[1].split("]")[0].split("[")[1].split(",")]
        size, ishape = 1, list(fd.get("out_shape") or [])
        for a in axes:
            size *= w["indices"][a] if a in w["indices"] else (ishape.pop(0) if ishape else 1)
        n += size * len(fd["outputs"])
    return n


def internal_shapes(w):
    r = {}
    for fd in w["functions"]:
        if fd.get("out_shape"):
            for o in fd["outputs"]:
                r[o] = fd["out_shape"][0] if fd.get("shape_int") and len(fd["out_shape"]) == 1 else tuple(fd["out_shape"])
    return r


def build_pipeline(w, *, cached=(), tags=None, **pipeline_kwargs):
    from pipefunc import PipeFunc, Pipeline

    pfs = []
    # outputs that live in a storage array assembled anew (to_array) for every consumer call: mapped over some input
    fresh_arrays = {o for fd in w["functions"] for o in fd["outputs"]
                    if fd.get("mapspec") and not fd["mapspec"].strip().startswith("...")}
    for fd in w["functions"]:
        inner = {p_: "in_" + p_.replace(".", "_") for p_ in fd.get("renamed", [])}
        fn = Fn(fd["name"], [inner.get(p_, p_) for p_ in fd["params"]], defaults=fd.get("sig_defaults") or None,
                n_out=len(fd["outputs"]), out_shape=fd.get("out_shape"),
                tag=(tags or {}).get(fd["name"], ""), none_mod=0 if fd.get("out_shape") else fd.get("none_mod", 0),
                seq_out=fd.get("seq_out") if not fd.get("out_shape") else False,
                outer={v: k for k, v in inner.items()}, dict_out=fd["outputs"] if fd.get("dict_out") else None,
                result_like=bool(fd.get("result_like")) and not fd.get("out_shape") and not fd.get("none_mod"),
                public_name=fd.get("public_name"),
                data_like=("masked" if fd.get("masked_out") and fd.get("out_shape") else
                           fd.get("data_like") if not fd.get("out_shape") and not fd.get("none_mod") else False),
                # (only arrays the function receives whole - each call's own fresh copy -, never elements or slices, which
                # in-memory storages hand out as views)
                scribbles=[inner.get(p_, p_) for p_ in fd["params"] if p_ in fresh_arrays and fd.get("mapspec")
                           and f"{p_}[" not in fd["mapspec"].split("->")[0]] if fd.get("scribbles") else ())
        if fd.get("closure"):
            from .userfuncs import as_closure

            fn = as_closure(fn)
        out = fd["outputs"][0] if len(fd["outputs"]) == 1 else tuple(fd["outputs"])
        kw = {}
        if fd.get("out_shape") and w.get("internal_via", "pipefunc") in ("pipefunc", "both"):
            kw["internal_shape"] = fd["out_shape"][0] if fd.get("shape_int") and len(fd["out_shape"]) == 1 else tuple(fd["out_shape"])
        if inner:
            kw["renames"] = {v: k for k, v in inner.items()}
        if fd.get("dict_out"):
            from .userfuncs import dict_picker

            kw["output_picker"] = dict_picker
        if fd.get("debug"):
            kw["debug"] = True
        if fd.get("profile"):
            kw["profile"] = True
        if fd.get("resources_var"):
            kw["resources"] = {"cpus": 1 + len(fd["name"])}
            kw["resources_variable"] = "res"
        pfs.append(PipeFunc(fn, out, mapspec=fd.get("mapspec"), defaults={**plain_defaults(fd), **array_defaults(w, fd)} or None,
                            bound=dict(fd.get("bound") or {}) or None, cache=fd["name"] in cached,
                            resources_scope=fd.get("resources_scope", "map"), **kw))
    return Pipeline(pfs, **pipeline_kwargs)


def map_kwargs(w):
    """Extra kwargs for Pipeline.map implied by the workload."""
    if w.get("internal_via") in ("map-arg", "both"):
        ish = internal_shapes(w)
        if ish:
            return {"internal_shapes": ish}
    return {}


def all_outputs(w):
    return [o for fd in w["functions"] for o in fd["outputs"]]


def results_canon(res, w):
    return {o: canon(res[o].output) for o in all_outputs(w)}


def describe(w):
    return {
        "indices": w["indices"],
        "inputs": {k: (v["kind"], v["axes"], *(["via-default"] if v.get("via_default") else []),
                       *([f"shadowed-default{v['shadow_default']:+d}"] if v.get("shadow_default") is not None else []))
                   for k, v in w["inputs"].items()},
        "functions": [
            {"f": fd["name"], "params": fd["params"], "out": fd["outputs"], "mapspec": fd["mapspec"],
             **({"out_shape": fd["out_shape"]} if fd.get("out_shape") else {}),
             **({"returns_none_1_in": fd["none_mod"]} if fd.get("none_mod") else {}),
             **({"resources_scope": "element"} if fd.get("resources_scope") == "element" else {}),
             **({"sequence_valued": True} if fd.get("seq_out") else {}),
             **({"renamed": fd["renamed"]} if fd.get("renamed") else {}),
             **({"dict_out": True} if fd.get("dict_out") else {}),
             **({"debug": True} if fd.get("debug") else {}),
             **({"profile": True} if fd.get("profile") else {}),
             **({"closure": True} if fd.get("closure") else {}),
             **({"resources_var": True} if fd.get("resources_var") else {}),
             **({"scribbles": True} if fd.get("scribbles") else {}),
             **({"public_name": fd["public_name"]} if fd.get("public_name") else {}),
             **({"result_like": True} if fd.get("result_like") else {}),
             **({"data_like": fd["data_like"]} if fd.get("data_like") else {}),
             **({"bound": fd["bound"]} if fd.get("bound") else {}),
             **({"defaults": {**fd["defaults"], **fd["sig_defaults"]}} if fd.get("defaults") or fd.get("sig_defaults") else {})}
            for fd in w["functions"]
        ],
    }


# ------------------------------------------------------------------ plain DAGs (no MapSpec)
def gen_dag(tape, *, min_funcs=2, max_funcs=5, allow_tuple=True, allow_defaults=True):
    """Random DAG of functions without MapSpec for pipeline(...)/run histories."""
    values: list = []  # names usable as parameters (root scalars and outputs)
    roots: list = []
    inputs: dict = {}
    funcs: list = []
    nf = min_funcs + tape.choose(max_funcs - min_funcs + 1, "nfuncs")
    cb = 0
    for k in range(nf):
        nparams = 1 + tape.choose(3, "nparams")
        params: list = []
        for _ in range(nparams):
            if values and tape.coin(0.65, "reuse"):
                p = tape.pick(values, "pvalue")
            else:
                p = ("_s" if tape.coin(0.08, "underscore-name") else "s") + str(len(roots))
                roots.append(p)
                values.append(p)
                inputs[p] = {"axes": [], "kind": "scalar", "base": 0}
            if p not in params:
                params.append(p)
        fd = {"name": f"f{k}", "params": list(params), "mapspec": None, "out_shape": None,
              "defaults": {}, "bound": {}, "sig_defaults": {}}
        n_out = 2 if allow_tuple and tape.coin(0.2, "tuple-out") else 1
        fd["outputs"] = [f"o{k}"] if n_out == 1 else [f"o{k}a", f"o{k}b"]
        if n_out == 1 and tape.coin(0.12, "returns-none"):
            fd["none_mod"] = 2 + tape.choose(2, "none-mod")
        if allow_defaults and tape.coin(0.15, "bound"):
            b = f"b{cb}"
            cb += 1
            fd["params"].append(b)
            fd["bound"][b] = f"{b}-bound"
        if allow_defaults and tape.coin(0.2, "default"):
            d = f"d{cb}"
            cb += 1
            fd["params"].append(d)
            where = tape.pick(["sig", "pipefunc"], "default-where")
            (fd["sig_defaults"] if where == "sig" else fd["defaults"])[d] = f"{d}-default"
            inputs[d] = {"axes": [], "kind": "default", "base": 0, "provided": bool(tape.coin(0.4, "default-provided"))}
        if tape.coin(0.06, "profile-flag"):
            fd["profile"] = True
        if tape.coin(0.08, "resources-variable"):
            fd["resources_var"] = True
            fd["params"].append("res")
        funcs.append(fd)
        values.extend(fd["outputs"])
    _none_only_for_leaves(funcs)
    _maybe_same_names(tape, funcs)
    return {"indices": {}, "inputs": inputs, "functions": funcs, "internal_via": "pipefunc"}


def upstream(w, output):
    """Names of the functions needed to compute `output`."""
    prod = {o: fd for fd in w["functions"] for o in fd["outputs"]}
    need, stack = [], [output]
    seen = set()
    while stack:
        o = stack.pop()
        fd = prod.get(o)
        if fd is None or fd["name"] in seen:
            continue
        seen.add(fd["name"])
        need.append(fd["name"])
        stack.extend(p for p in fd["params"] if p not in fd.get("bound", {}))
    return need


def root_kwargs(w, output):
    """Root keyword arguments needed to call pipeline(output, **kwargs)."""
    prod = {o for fd in w["functions"] for o in fd["outputs"]}
    need = upstream(w, output)
    kw = {}
    allin = build_inputs(w)
    for fd in w["functions"]:
        if fd["name"] not in need:
            continue
        for p in fd["params"]:
            if p in prod or p in fd.get("bound", {}):
                continue
            if p in allin:
                kw[p] = allin[p]
    return kw
