"""File-system seam (DESIGN 2.3): every mutating call below the run's scratch root is a kernel
event; faults: crash before event k, torn write, short write; directory-order permutation;
controllable file ctimes.  Real kernel FS underneath (tmpfs)."""
from __future__ import annotations

import builtins
import hashlib
import io
import os
import pathlib
import re
import shutil

from . import context
from . import env as simenv
from .kernel import SimCrash, SimKill

_real = {}
_installed = False
_TMP_RE = re.compile(r"(\.\d+)?(-\d+)?\.tmp$")  # pid/thread-id in temporary names must not reach the event log


def _fs_for(path):
    """Return (fs, abspath, rel) if the path is governed by the current simulation."""
    sim = context.CURRENT
    if sim is None or sim.fs is None:
        return None
    try:
        p = os.fspath(path)
    except TypeError:
        return None
    if isinstance(p, bytes):
        return None
    if not p.startswith("/"):
        p = os.path.abspath(p)
    fs = sim.fs
    if not (p.startswith(fs.root_slash) or p == fs.root):
        return None
    if not sim.kernel.in_sim_thread():
        return None
    return fs, p, p[len(fs.root_slash):]


class SimRaw(io.RawIOBase):
    def __init__(self, fs, path, rel, mode):
        super().__init__()
        self._fs = fs
        self._rel = rel
        self._f = io.FileIO(path, mode)
        self.name = path
        self.mode = mode

    def writable(self):
        return True

    def readable(self):
        return False

    def seekable(self):
        return False

    def tell(self):
        return self._f.tell()  # the position can be asked for (f.tell() after a dump), seeking cannot

    def fileno(self):
        # no descriptor is handed out: zero-copy shortcuts (shutil's sendfile path) would bypass the write events
        raise io.UnsupportedOperation("fileno")

    def write(self, b):
        b = bytes(b)
        n = len(b)
        if n == 0:
            return 0
        fs = self._fs
        torn = fs.event("write", self._rel, n)
        if torn is not None:
            # torn write: a prefix reaches the file, then the process dies
            self._f.write(b[:torn])
            fs.do_crash(f"torn write {self._rel} {torn}/{n}")
            raise SimCrash
        if fs.short_writes and n > 1 and fs.sim.tape.coin(fs.short_writes, "short-write"):
            m = 1 + fs.sim.tape.choose(n - 1, "short-len")
            fs.sim.probe("short_write")
            return self._f.write(b[:m])
        return self._f.write(b)

    def close(self):
        if not self.closed:
            try:
                self._f.close()
            finally:
                super().close()


class _ScandirWrap:
    def __init__(self, entries):
        self._e = entries
        self._it = iter(entries)

    def __iter__(self):
        return self

    def __next__(self):  # os.walk drives the scandir object with next()
        return next(self._it)

    def __enter__(self):
        return self

    def __exit__(self, *a):
        return False

    def close(self):
        pass


class _StatWrap:
    def __init__(self, st, ctime_ns=None, mtime_s=None):
        self._st = st
        if ctime_ns is not None:
            self.st_ctime_ns = ctime_ns
            self.st_ctime = ctime_ns / 1e9
        if mtime_s is not None:
            self.st_mtime = float(mtime_s)
            self.st_mtime_ns = int(mtime_s) * 10**9

    def __getattr__(self, name):
        return getattr(self._st, name)


class SimFS:
    def __init__(self, sim, root, *, permute_dirs=True, short_writes=0.0, buffer_size=None):
        self.sim = sim
        self.root = os.path.abspath(root)
        self.root_slash = self.root + "/"
        self.n = 0
        self.trace: list = []  # (n, kind, rel, nbytes, thread)
        self.crash_at = None  # 1-based event number before which the process dies
        self.torn_bytes = None  # for a write event: bytes that still reach the file
        self.orphans = False
        self.dead = False
        self.crash_note = None
        self.permute_dirs = permute_dirs
        self.short_writes = short_writes
        self.buffer_size = buffer_size
        self.ctimes: dict = {}  # abspath -> ns, consulted by Path.stat
        # file modification times as a seam: with coarse_mtime the timestamp of a write is a virtual clock that
        # the tape advances by 0 or 1 per write (coarse-granularity file systems: equal mtimes for quick rewrites)
        self.read_yields = False  # directory listings and stat() of scratch paths are pre-emption points as well
        self.coarse_mtime = False
        self.mtimes: dict = {}
        self.mtime_now = 1_700_000_000
        self.on_open_write = None  # callback(abspath, existed) when a file is opened for writing (ctimes)
        sim.fs = self
        install()

    # ---------------------------------------------------------------- events / faults
    def event(self, kind, rel, nbytes=None):
        """Called before a mutating operation takes effect.  Returns None to proceed, or the
        number of bytes of a torn write."""
        sim = self.sim
        k = sim.kernel
        if self.dead and self._is_dead(k.current):
            raise SimCrash
        k.yield_point(f"fs:{kind}:{_TMP_RE.sub('.tmp', rel)}")
        if self.dead:
            if self._is_dead(k.current):
                raise SimCrash
            return None  # orphan worker: effect happens, no longer counted
        self.n += 1
        self.trace.append((self.n, kind, rel, nbytes, k.current.name))
        if self.crash_at is not None and self.n == self.crash_at:
            if kind == "write" and self.torn_bytes is not None and nbytes and nbytes > 1:
                t = max(1, min(nbytes - 1, self.torn_bytes if self.torn_bytes >= 0 else nbytes + self.torn_bytes))
                sim.probe("torn_write")
                return t
            self.do_crash(f"before {kind} {rel}")
            raise SimCrash
        return None

    def _is_dead(self, th):
        k = self.sim.kernel
        return k.dead_all or th.proc in k.dead_procs

    def do_crash(self, note):
        k = self.sim.kernel
        self.dead = True
        self.crash_note = note
        self.sim.probe("crash")
        if self.orphans:
            k.dead_procs.add(0)
            k.dead_procs.add(k.current.proc)
            self.sim.probe("crash_with_orphans")
        else:
            k.dead_all = True

    def tree_digest(self, sub=""):
        return tree_digest(os.path.join(self.root, sub) if sub else self.root)


def tree_digest(base):
    """Digest of names, sizes and contents below `base`; never draws from the tape."""
    saved, context.CURRENT = context.CURRENT, None
    try:
        h = hashlib.sha256()
        walk = _real.get("walk", os.walk)
        opn = _real.get("open", builtins.open)
        for dp, dns, fns in walk(base):
            dns.sort()
            rel = dp[len(base):]
            h.update(f"D{rel}\n".encode())
            for fn in sorted(fns):
                with opn(os.path.join(dp, fn), "rb") as f:
                    data = f.read()
                h.update(f"F{rel}/{fn}:{len(data)}:".encode())
                h.update(hashlib.sha256(data).digest())
        return h.hexdigest()[:16]
    finally:
        context.CURRENT = saved


# -------------------------------------------------------------------- patched entry points
def _open(file, mode="r", buffering=-1, encoding=None, errors=None, newline=None, closefd=True,
          opener=None):
    g = None
    if isinstance(mode, str) and ("w" in mode or "a" in mode or "x" in mode or "+" in mode):
        g = _fs_for(file) if not isinstance(file, int) else None
    if isinstance(mode, str) and "b" not in mode and encoding in (None, "locale") and simenv.get("text_encoding"):
        # text mode without an explicit encoding means "whatever this process's locale says": part of the environment
        if g is not None or (not isinstance(file, int) and _fs_for(file) is not None):
            encoding = simenv.get("text_encoding")
    if g is None:
        if isinstance(mode, str) and not isinstance(file, int):
            gr = _fs_for(file)
            if gr is not None and gr[0].read_yields and not gr[0].dead:
                gr[0].sim.kernel.yield_point("fs:open-read")  # another thread may run between two reads
        return _real["open"](file, mode, buffering, encoding, errors, newline, closefd, opener)
    fs, p, rel = g
    if "+" in mode:
        raise NotImplementedError(f"sim fs: mode {mode!r}")
    parent = os.path.dirname(p)
    if not os.path.isdir(parent):
        return _real["open"](file, mode, buffering, encoding, errors, newline, closefd, opener)
    if "x" in mode and os.path.lexists(p):
        return _real["open"](file, mode, buffering, encoding, errors, newline, closefd, opener)
    fs.event("open", rel)
    raw_mode = "w" if "w" in mode else ("a" if "a" in mode else "x")
    existed = os.path.lexists(p)
    raw = SimRaw(fs, p, rel, raw_mode)
    if fs.on_open_write is not None:
        fs.on_open_write(p, existed)
    if fs.coarse_mtime:
        fs.mtime_now += fs.sim.tape.pick([0, 0, 1], "mtime-step")
        fs.mtimes[p] = fs.mtime_now
    bs = fs.buffer_size or io.DEFAULT_BUFFER_SIZE
    if buffering == 0:
        if "b" not in mode:
            raise ValueError("can't have unbuffered text I/O")
        return raw
    if buffering > 1:
        bs = buffering
    buf = io.BufferedWriter(raw, bs)
    if "b" in mode:
        return buf
    return io.TextIOWrapper(buf, encoding or "utf-8", errors, newline, line_buffering=(buffering == 1))


def _mkdir(path, mode=0o777, *, dir_fd=None):
    g = _fs_for(path) if dir_fd is None else None
    if g is not None:
        fs, p, rel = g
        if not os.path.lexists(p) and os.path.isdir(os.path.dirname(p)):
            fs.event("mkdir", rel)
    return _real["mkdir"](path, mode, dir_fd=dir_fd)


def _unlink(path, *, dir_fd=None):
    g = _fs_for(path) if dir_fd is None else None
    if g is not None:
        fs, p, rel = g
        if os.path.lexists(p) and not os.path.isdir(p):
            fs.event("unlink", rel)
            fs.ctimes.pop(p, None)
    return _real["unlink"](path, dir_fd=dir_fd)


def _rmdir(path, *, dir_fd=None):
    g = _fs_for(path) if dir_fd is None else None
    if g is not None:
        fs, p, rel = g
        if os.path.isdir(p) and not _real["listdir"](p):
            fs.event("rmdir", rel)
    return _real["rmdir"](path, dir_fd=dir_fd)


def _cross_device(src, dst):
    """With the case's directory on a file system of its own, a rename across its boundary is refused (EXDEV)."""
    if not simenv.get("own_filesystem"):
        return
    a, b = _fs_for(src), _fs_for(dst)
    if (a is None) != (b is None):
        import errno

        (a or b)[0].sim.probe("rename_across_file_systems_refused")
        raise OSError(errno.EXDEV, "Invalid cross-device link", os.fspath(src), None, os.fspath(dst))


def _replace(src, dst, *, src_dir_fd=None, dst_dir_fd=None):
    if src_dir_fd is None and dst_dir_fd is None:
        _cross_device(src, dst)
    g = _fs_for(dst) if src_dir_fd is None and dst_dir_fd is None else None
    if g is not None:
        fs, p, rel = g
        if os.path.lexists(os.fspath(src)):
            fs.event("replace", rel)
            sp = os.path.abspath(os.fspath(src))
            if sp in fs.ctimes:
                fs.ctimes[p] = fs.ctimes.pop(sp)
            if sp in fs.mtimes:
                fs.mtimes[p] = fs.mtimes.pop(sp)  # rename keeps the modification time
    return _real["replace"](src, dst, src_dir_fd=src_dir_fd, dst_dir_fd=dst_dir_fd)


def _rename(src, dst, *, src_dir_fd=None, dst_dir_fd=None):
    if src_dir_fd is None and dst_dir_fd is None:
        _cross_device(src, dst)
    g = _fs_for(dst) if src_dir_fd is None and dst_dir_fd is None else None
    if g is not None:
        fs, p, rel = g
        if os.path.lexists(os.fspath(src)):
            fs.event("rename", rel)
    return _real["rename"](src, dst, src_dir_fd=src_dir_fd, dst_dir_fd=dst_dir_fd)


def _listdir(path="."):
    g = _fs_for(path) if not isinstance(path, int) else None
    if g is not None and g[0].read_yields:
        g[0].sim.kernel.yield_point("fs:listdir")
    res = _real["listdir"](path)
    if g is not None:
        fs = g[0]
        res.sort()
        if fs.permute_dirs and len(res) > 1:
            res = fs.sim.tape.shuffle(res, "dir-order")
    return res


def _scandir(path="."):
    g = _fs_for(path) if not isinstance(path, int) else None
    if g is None:
        return _real["scandir"](path)
    fs = g[0]
    if fs.read_yields:
        fs.sim.kernel.yield_point("fs:scandir")
    with _real["scandir"](path) as it:
        entries = sorted(it, key=lambda e: e.name)
    if fs.permute_dirs and len(entries) > 1:
        entries = fs.sim.tape.shuffle(entries, "dir-order")
    return _ScandirWrap(entries)


def _path_stat(self, *, follow_symlinks=True):
    sim = context.CURRENT
    if sim is not None and sim.fs is not None and sim.fs.read_yields and sim.kernel.in_sim_thread() \
            and os.fspath(self).startswith(sim.fs.root_slash):
        sim.kernel.yield_point("fs:stat")
    st = _real["path_stat"](self, follow_symlinks=follow_symlinks)
    if sim is not None and sim.fs is not None and (sim.fs.ctimes or sim.fs.mtimes):
        ap = os.path.abspath(os.fspath(self))
        c = sim.fs.ctimes.get(ap)
        m = sim.fs.mtimes.get(ap)
        if c is not None or m is not None:
            return _StatWrap(st, c, m)
    return st


def install():
    global _installed
    if _installed:
        return
    _real.update(
        open=builtins.open, mkdir=os.mkdir, unlink=os.unlink, remove=os.remove, rmdir=os.rmdir,
        replace=os.replace, rename=os.rename, listdir=os.listdir, scandir=os.scandir,
        walk=os.walk, path_stat=pathlib.Path.stat, use_fd=shutil._use_fd_functions,
    )
    builtins.open = _open
    io.open = _open
    os.mkdir = _mkdir
    os.unlink = _unlink
    os.remove = _unlink
    os.rmdir = _rmdir
    os.replace = _replace
    os.rename = _rename
    os.listdir = _listdir
    os.scandir = _scandir
    pathlib.Path.stat = _path_stat
    shutil._use_fd_functions = False  # path-based rmtree: same unlink/rmdir sequence, visible paths
    _installed = True


def real_open(*a, **k):
    return (_real.get("open") or builtins.open)(*a, **k)


def real_rmtree(path):
    sim_saved = context.CURRENT
    context.CURRENT = None
    try:
        shutil.rmtree(path, ignore_errors=True)
    finally:
        context.CURRENT = sim_saved
