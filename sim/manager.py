"""FakeManager: stands in for multiprocessing.Manager() (DESIGN 2.3).

Every proxy method is one yield point plus one atomic operation on the server-side object,
with a pickle round-trip of arguments and results (values are copies, as with a real proxy).
Proxies pickle by (manager id, object id); a manager dies with the simulated process that
created it, after which rebuilding or calling a proxy raises a connection error.
"""
from __future__ import annotations

import pickle

from . import context

_REGISTRY: dict = {}  # manager id -> FakeManager (alive or dead)
_NEXT = [0]


def _rt(x):
    return pickle.loads(pickle.dumps(x))


class _Server:
    """Server side of one shared object."""

    __slots__ = ("obj", "kind", "owner", "waiters")


class FakeManager:
    def __init__(self):
        sim = context.current()
        self.sim = sim
        _NEXT[0] += 1
        self.id = _NEXT[0]
        self.alive = True
        self.objs: dict = {}
        self.rpcs = 0
        _REGISTRY[self.id] = self
        sim.managers.append(self)
        sim.probe("manager_started")

    def _new(self, kind, obj):
        oid = len(self.objs)
        self.objs[oid] = obj
        return oid

    def dict(self, *a, **k):
        return DictProxy(self.id, self._new("dict", dict(*a, **k)))

    def list(self, *a):
        return ListProxy(self.id, self._new("list", list(*a)))

    def Lock(self):
        return LockProxy(self.id, self._new("lock", {"owner": None}))

    def shutdown(self):
        self.alive = False
        self.objs = {}

    def __enter__(self):
        return self

    def __exit__(self, *a):
        self.shutdown()


def reset():
    """Forget every manager: called at the start of each case so that ids (which end up in
    pickled proxies, hence in file sizes) do not depend on the interpreter's history."""
    for m in _REGISTRY.values():
        m.shutdown()
    _REGISTRY.clear()
    _NEXT[0] = 0


def shutdown_all(sim):
    for m in sim.managers:
        m.shutdown()


def _rebuild(cls, mid, oid):
    m = _REGISTRY.get(mid)
    if m is None or not m.alive:
        raise ConnectionRefusedError(f"manager {mid} is gone (proxy rebuilt after its process exited)")
    return cls(mid, oid)


class _Proxy:
    __slots__ = ("_mid", "_oid")

    def __init__(self, mid, oid):
        self._mid = mid
        self._oid = oid

    def __reduce__(self):
        return (_rebuild, (type(self), self._mid, self._oid))

    def _call(self, name, fn, *args):
        m = _REGISTRY.get(self._mid)
        if m is None or not m.alive:
            raise ConnectionRefusedError(f"manager {self._mid} is gone")
        sim = context.CURRENT or m.sim
        k = sim.kernel
        args = _rt(args)
        k.yield_point(f"rpc:{name}")
        k.sched_note(f"R{k.current.name if k.current else '-'}:{name}")
        if not m.alive:
            raise ConnectionRefusedError(f"manager {self._mid} is gone")
        m.rpcs += 1
        sim.probes["manager_rpc"] += 1
        res = fn(m.objs[self._oid], *args)
        return _rt(res)

    def __repr__(self):
        return f"<{type(self).__name__} m{self._mid}.{self._oid}>"


class DictProxy(_Proxy):
    __slots__ = ()

    def __getitem__(self, key):
        return self._call("dict.getitem", lambda d, k: d[k], key)

    def __setitem__(self, key, value):
        return self._call("dict.setitem", lambda d, k, v: d.__setitem__(k, v), key, value)

    def __delitem__(self, key):
        return self._call("dict.delitem", lambda d, k: d.__delitem__(k), key)

    def __contains__(self, key):
        return self._call("dict.contains", lambda d, k: k in d, key)

    def __len__(self):
        return self._call("dict.len", len)

    def __iter__(self):
        return iter(self._call("dict.iter", lambda d: list(d)))

    def keys(self):
        return self._call("dict.keys", lambda d: list(d.keys()))

    def values(self):
        return self._call("dict.values", lambda d: list(d.values()))

    def items(self):
        return self._call("dict.items", lambda d: list(d.items()))

    def get(self, key, default=None):
        return self._call("dict.get", lambda d, k, df: d.get(k, df), key, default)

    def pop(self, key, *default):
        return self._call("dict.pop", lambda d, k, *df: d.pop(k, *df), key, *default)

    def popitem(self):
        return self._call("dict.popitem", lambda d: d.popitem())

    def clear(self):
        return self._call("dict.clear", lambda d: d.clear())

    def update(self, *a, **kw):
        return self._call("dict.update", lambda d, a, kw: d.update(*a, **kw), a, kw)

    def setdefault(self, key, default=None):
        return self._call("dict.setdefault", lambda d, k, df: d.setdefault(k, df), key, default)

    def copy(self):
        return self._call("dict.copy", lambda d: dict(d))


class ListProxy(_Proxy):
    __slots__ = ()

    def append(self, v):
        return self._call("list.append", lambda l, v: l.append(v), v)

    def remove(self, v):
        return self._call("list.remove", lambda l, v: l.remove(v), v)

    def pop(self, *i):
        return self._call("list.pop", lambda l, *i: l.pop(*i), *i)

    def insert(self, i, v):
        return self._call("list.insert", lambda l, i, v: l.insert(i, v), i, v)

    def index(self, v):
        return self._call("list.index", lambda l, v: l.index(v), v)

    def count(self, v):
        return self._call("list.count", lambda l, v: l.count(v), v)

    def extend(self, vs):
        return self._call("list.extend", lambda l, vs: l.extend(vs), list(vs))

    def __len__(self):
        return self._call("list.len", len)

    def __getitem__(self, i):
        return self._call("list.getitem", lambda l, i: l[i], i)

    def __setitem__(self, i, v):
        return self._call("list.setitem", lambda l, i, v: l.__setitem__(i, v), i, v)

    def __delitem__(self, i):
        return self._call("list.delitem", lambda l, i: l.__delitem__(i), i)

    def __contains__(self, v):
        return self._call("list.contains", lambda l, v: v in l, v)

    def __iter__(self):
        return iter(self._call("list.iter", lambda l: list(l)))


class LockProxy(_Proxy):
    __slots__ = ()

    def acquire(self, blocking=True, timeout=None):
        m = _REGISTRY.get(self._mid)
        if m is None or not m.alive:
            raise ConnectionRefusedError(f"manager {self._mid} is gone")
        k = (context.CURRENT or m.sim).kernel
        st = m.objs[self._oid]
        k.yield_point("rpc:lock.acquire")
        if st["owner"] is not None:
            if not blocking:
                return False
            m.sim.probes["lock_contended"] += 1
            k.block_until(lambda: st["owner"] is None or not m.alive, "lock.wait")
            if not m.alive:
                raise ConnectionRefusedError(f"manager {self._mid} is gone")
        st["owner"] = k.current.name if k.current else "-"
        m.rpcs += 1
        return True

    def release(self):
        m = _REGISTRY.get(self._mid)
        if m is None or not m.alive:
            raise ConnectionRefusedError(f"manager {self._mid} is gone")
        k = (context.CURRENT or m.sim).kernel
        st = m.objs[self._oid]
        if st["owner"] is None:
            raise RuntimeError("release unlocked lock")
        st["owner"] = None
        m.rpcs += 1
        # the release RPC itself: others may run right after it
        try:
            k.yield_point("rpc:lock.release")
        except BaseException:
            raise

    def __enter__(self):
        return self.acquire()

    def __exit__(self, *a):
        self.release()
        return False


_orig = {}


def install():
    """Route pipefunc's Manager() calls to FakeManager while a simulation is in progress."""
    if _orig:
        return
    import multiprocessing

    import pipefunc.cache as pc

    _orig["pc"] = pc.Manager
    _orig["mp"] = multiprocessing.Manager

    def manager(*a, **k):
        sim = context.CURRENT
        if sim is None or not getattr(sim, "fake_managers", True):
            return _orig["mp"](*a, **k)
        return FakeManager()

    pc.Manager = manager
    multiprocessing.Manager = manager
