"""A storage backend registered by the *user* of pipefunc (public API: StorageBase / register_storage).

`eager_dict` keeps its elements in a dict of the main process like `dict`, but writes the dict to its folder after
every dump, so it needs a run folder (`requires_serialization = True`) although workers never write to it
(`dump_in_subprocess = False`).  The shipped backends all have the two flags equal; code that confuses them only
shows with a backend like this one."""
from __future__ import annotations


def register():
    from pipefunc.map import DictArray
    from pipefunc.map._storage_array._base import register_storage, storage_registry

    if "eager_dict" in storage_registry:
        return storage_registry["eager_dict"]

    class EagerDictArray(DictArray):
        storage_id = "eager_dict"
        requires_serialization = True

        def dump(self, key, value):
            super().dump(key, value)
            self.persist()

    EagerDictArray.__module__ = __name__
    EagerDictArray.__qualname__ = "EagerDictArray"
    globals()["EagerDictArray"] = EagerDictArray  # importable by name: pickled instances find their class
    register_storage(EagerDictArray)
    return EagerDictArray
