"""Choice tape: the only source of nondeterministic choices (DESIGN 2.1)."""
from __future__ import annotations

import hashlib
import random


def derive_seed(*parts) -> int:
    h = hashlib.sha256(repr(parts).encode()).digest()
    return int.from_bytes(h[:8], "big")


class Tape:
    """generate mode: draws from a PRNG and records; replay mode: replays recorded values
    (value mod n; 0 when exhausted, so a truncated tape is still a valid, simpler run)."""

    def __init__(self, seed: int | None = None, recorded: list[int] | None = None):
        self.replay = recorded is not None
        self.rng = None if self.replay else random.Random(seed)
        self.inp = list(recorded) if recorded is not None else None
        self.pos = 0
        self.out: list[int] = []

    def choose(self, n: int, label: str = "") -> int:
        if n <= 0:
            raise ValueError("choose from empty set")
        if self.replay:
            v = self.inp[self.pos] % n if self.pos < len(self.inp) else 0
            self.pos += 1
        else:
            v = self.rng.randrange(n)
        self.out.append(v)
        return v

    def coin(self, p: float, label: str = "") -> bool:
        """True with probability p.  Encoded as an integer in [0,1000) so that 0 == False."""
        if 0 < p < 0.005:  # rare events: a finer grid (one in a million), same convention
            t = int(round(p * 1_000_000))
            v = self.choose(1_000_000, label)
            return (999_999 - v) < t
        t = int(round(p * 1000))
        v = self.choose(1000, label)
        # v < t  <=>  True ; replaying 0 must mean "False": map so that recorded 0 => False
        return (999 - v) < t

    def pick(self, seq, label: str = ""):
        return seq[self.choose(len(seq), label)]

    def shuffle(self, seq, label: str = ""):
        seq = list(seq)
        for i in range(len(seq) - 1, 0, -1):
            j = i - self.choose(i + 1, label)  # 0 => keep in place
            seq[i], seq[j] = seq[j], seq[i]
        return seq

    def recorded(self) -> list[int]:
        return list(self.out)
