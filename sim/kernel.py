"""Seeded scheduler over parked real threads (DESIGN 2.2).

Exactly one simulated thread holds the baton.  At every yield point the tape decides who
continues.  Nothing in here reads a clock or an unseeded PRNG.
"""
from __future__ import annotations

import hashlib
import threading


class SimKill(BaseException):
    """Raised inside a simulated thread that is torn down at the end of a run."""


class SimWorkerDeath(BaseException):
    """The (simulated) pool worker process that runs this code dies on the spot (os._exit, OOM kill)."""


class SimCrash(BaseException):
    """The simulated process this thread belongs to has died."""


class Deadlock(Exception):
    """No simulated thread is runnable while the main thread has not returned."""


class StepCap(Exception):
    """Per-run yield budget exhausted."""


class SimThread:
    __slots__ = ("id", "name", "proc", "sem", "fn", "state", "pred", "exc", "kill", "real",
                 "crashed", "deadlock")

    def __init__(self, id_, name, proc, fn):
        self.id = id_
        self.name = name
        self.proc = proc
        self.sem = threading.Semaphore(0)
        self.fn = fn
        self.state = "ready"  # ready | done
        self.pred = None  # callable -> bool while blocked
        self.exc = None
        self.kill = False
        self.real = None
        self.crashed = False
        self.deadlock = False


class Kernel:
    def __init__(self, tape, step_cap: int = 20000, preempt: float = 0.3, log_events: bool = True):
        self.tape = tape
        self.step_cap = step_cap
        self.preempt = preempt
        self.threads: list[SimThread] = []
        self.current: SimThread | None = None
        self.steps = 0
        self.seq = 0  # global event sequence number
        self.killing = False
        self.dead_procs: set = set()
        self.dead_all = False
        self._h = hashlib.sha256()
        self.events: list | None = [] if log_events else None
        self.sched_h = hashlib.sha256()  # digest of task start/end/rpc order only
        self.max_concurrent = 0
        self.switches = 0
        self.deadlocked = False
        self.main: SimThread | None = None
        # line-level pre-emption (sys.settrace): every source line of the files whose path contains one of these
        # fragments is a yield point while at least one other simulated thread could run.  Off by default.
        self.line_preempt: tuple = ()
        self.line_yields = 0

    # ------------------------------------------------------------------ logging
    def log(self, label: str):
        t = self.current
        self.seq += 1
        rec = f"{self.seq}|{t.name if t else '-'}|{label}\n"
        self._h.update(rec.encode())
        if self.events is not None:
            self.events.append((self.seq, t.name if t else "-", label))
        return self.seq

    def digest(self) -> str:
        return self._h.hexdigest()[:16]

    def sched_note(self, label: str):
        self.sched_h.update((label + "\n").encode())

    def sched_digest(self) -> str:
        return self.sched_h.hexdigest()[:16]

    # ------------------------------------------------------------------ line-level pre-emption
    def _trace(self, frame, event, arg):
        if event != "call" or not self.line_preempt:
            return None
        fn = frame.f_code.co_filename
        for frag in self.line_preempt:
            if frag in fn:
                return self._trace_lines
        return None

    def _trace_lines(self, frame, event, arg):
        if event == "line" and not self.killing:
            t = self.current
            if t is not None and threading.current_thread() is t.real and \
                    any(th is not t and th.state != "done" and th.pred is None for th in self.threads):
                self.line_yields += 1
                self.yield_point(f"line:{frame.f_code.co_name}:{frame.f_lineno - frame.f_code.co_firstlineno}")
        return self._trace_lines

    # ------------------------------------------------------------------ lifecycle
    def run(self, main_fn):
        """Run main_fn as simulated thread 'main' on the calling real thread."""
        import sys

        t = SimThread(0, "main", 0, main_fn)
        t.real = threading.current_thread()
        self.threads.append(t)
        self.current = t
        self.main = t
        traced = bool(self.line_preempt)
        if traced:
            sys.settrace(self._trace)
        try:
            return main_fn()
        finally:
            if traced:
                sys.settrace(None)
            t.state = "done"
            self.finish()

    def finish(self):
        """Kill every simulated thread that is still alive; returns their number."""
        self.killing = True
        leaked = [th for th in self.threads if th.state != "done" and th is not self.main]
        for th in leaked:
            th.kill = True
        for th in leaked:
            self.current = th
            th.sem.release()
            if th.real is not None:
                th.real.join(timeout=30)
                if th.real.is_alive():
                    raise RuntimeError(f"simulated thread {th.name} did not die")
        self.current = self.main
        self.leaked = len(leaked)
        return len(leaked)

    def alive_tasks(self) -> int:
        return sum(1 for th in self.threads if th.state != "done" and th is not self.main)

    def spawn(self, fn, name: str, proc=0, pred=None) -> SimThread:
        th = SimThread(len(self.threads), name, proc, fn)
        th.pred = pred
        self.threads.append(th)
        real = threading.Thread(target=self._boot, args=(th,), name=f"sim-{name}", daemon=True)
        th.real = real
        real.start()
        return th

    def _boot(self, th: SimThread):
        th.sem.acquire()
        try:
            if th.kill:
                raise SimKill
            th.pred = None
            if self.line_preempt:
                import sys

                sys.settrace(self._trace)
            th.fn()
        except SimKill:
            pass
        except SimCrash:
            th.crashed = True
        except BaseException as e:  # noqa: BLE001 - recorded, surfaced by the engine
            th.exc = e
        finally:
            th.state = "done"
            if not self.killing:
                self._exit_handover(th)

    def _exit_handover(self, th: SimThread):
        nxt = self._pick(th, self_runnable=False)
        if nxt is None:
            # nobody runnable: wake main with a deadlock flag (it must be blocked)
            self.deadlocked = True
            self.main.deadlock = True
            nxt = self.main
        self.current = nxt
        nxt.sem.release()

    # ------------------------------------------------------------------ scheduling
    def _runnable(self, th: SimThread) -> bool:
        if th.state == "done":
            return False
        if self.dead_all or th.proc in self.dead_procs:
            return True  # a blocked thread of a dead process is woken so that it dies
        if th.pred is None:
            return True
        return bool(th.pred())

    def _pick(self, cur: SimThread, self_runnable: bool):
        others = [th for th in self.threads if th is not cur and self._runnable(th)]
        n_alive = sum(1 for th in self.threads if th.state != "done" and th.pred is None)
        if n_alive > self.max_concurrent:
            self.max_concurrent = n_alive
        if self_runnable:
            if not others:
                return cur
            if not self.tape.coin(self.preempt, "preempt"):
                return cur
            return others[self.tape.choose(len(others), "sched")]
        if not others:
            return None
        if len(others) == 1:
            return others[0]
        return others[self.tape.choose(len(others), "sched")]

    def _switch(self, cur: SimThread, nxt: SimThread):
        self.switches += 1
        self.current = nxt
        nxt.sem.release()
        cur.sem.acquire()

    def _check(self, t: SimThread):
        if t.kill or (self.killing and t is not self.main):
            raise SimKill
        if t.deadlock:
            t.deadlock = False
            raise Deadlock("no runnable simulated thread")
        if self.dead_all or t.proc in self.dead_procs:
            raise SimCrash

    def yield_point(self, label: str) -> int:
        t = self.current
        if t is None or threading.current_thread() is not t.real:
            return self.seq  # not a simulated thread (e.g. FileArray's reader pool): no-op
        self._check(t)
        seq = self.log(label)
        self.steps += 1
        if self.steps > self.step_cap:
            raise StepCap(f"more than {self.step_cap} yields")
        nxt = self._pick(t, self_runnable=True)
        if nxt is not t:
            self._switch(t, nxt)
            self._check(t)
        return seq

    def block_until(self, pred, label: str):
        t = self.current
        if t is None or threading.current_thread() is not t.real:
            raise RuntimeError("block_until from a non-simulated thread")
        self._check(t)
        self.log(label)
        self.steps += 1  # also when the predicate already holds: a caller spinning on it must hit the step cap
        if self.steps > self.step_cap:
            raise StepCap(f"more than {self.step_cap} yields")
        while not pred():
            self.steps += 1
            if self.steps > self.step_cap:
                raise StepCap(f"more than {self.step_cap} yields")
            t.pred = pred
            nxt = self._pick(t, self_runnable=False)
            if nxt is None:
                t.pred = None
                self.deadlocked = True
                raise Deadlock(f"no runnable simulated thread (blocked at {label})")
            self._switch(t, nxt)
            t.pred = None
            self._check(t)
        return self.seq

    def drain(self):
        """Block the calling thread until no other simulated thread can run."""
        me = self.current
        self.block_until(lambda: not any(self._runnable(th) for th in self.threads if th is not me), "drain")

    def kill_proc(self, proc):
        self.dead_procs.add(proc)

    def in_sim_thread(self) -> bool:
        t = self.current
        return t is not None and threading.current_thread() is t.real
