"""Known-findings file handling (DESIGN section 6).  Never written at run time."""
from __future__ import annotations

import json
import os

VERIF = os.path.dirname(os.path.dirname(os.path.abspath(__file__)))


def load_known():
    path = os.path.join(VERIF, "known_findings.json")
    if not os.path.exists(path):
        return []
    with open(path) as f:
        return json.load(f).get("findings", [])


def match_known(pid, cls, signature, known):
    """A violation is a known finding only if a `known` entry lists exactly its class (oracle, kind)
    and every key of the entry's signature has the same value in the violation's signature."""
    sig = signature or {}
    for k in known:
        if k.get("status") != "known" or k.get("property") != pid:
            continue
        ks = k.get("signature") or {}
        if not ks:
            continue
        if list(cls) != [k["oracle"], k["kind"]]:
            continue
        if all(sig.get(a) == b for a, b in ks.items()):
            return k
    return None
