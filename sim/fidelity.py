"""Fidelity cross-check (DESIGN 2.7): a sample of generated workloads is executed with the REAL
ThreadPoolExecutor, ProcessPoolExecutor and multiprocessing.Manager (no simulator, no seams) and must
give the results the sequential reference gives.  Observation of uncontrolled executions: never the
source of a VIOLATION line; a disagreement means a stub misrepresents its component (exit 2)."""
from __future__ import annotations

import json
import os
import shutil
import sys
import tempfile
import time
import warnings
from concurrent.futures import ProcessPoolExecutor, ThreadPoolExecutor


def _init_worker():
    """Real pool workers are fresh interpreters: import pipefunc with zarr masked, as everywhere else."""
    from .bootstrap import boot

    boot()


def main(argv):
    n = int(argv[0]) if argv else 40
    seed = int(os.environ.get("VERIF_SEED", "0"))
    from .bootstrap import boot

    boot()
    import multiprocessing as mp

    from . import runner
    from .genpipe import all_outputs, build_inputs, build_pipeline, gen_workload, map_kwargs
    from .tape import Tape, derive_seed
    from .userfuncs import canon

    from pipefunc.map import load_outputs

    t0 = time.time()
    done = disc = 0
    diverged = []
    counts = {"thread": 0, "process": 0}
    ctx = mp.get_context("forkserver")
    warnings.simplefilter("ignore")
    with ProcessPoolExecutor(2, mp_context=ctx, initializer=_init_worker) as ppool, ThreadPoolExecutor(3) as tpool:
        for idx in range(n):
            tape = Tape(derive_seed(seed, "fidelity", idx))
            w = gen_workload(tape, max_funcs=4)
            storage = tape.pick(["file_array", "dict", "shared_memory_dict"], "storage")
            kind = tape.pick(["thread", "thread", "process"], "kind")
            try:
                with runner.quiet():
                    p = build_pipeline(w)
                    ref = p.map(build_inputs(w), parallel=False, storage="dict", **map_kwargs(w))
                R0 = {o: canon(ref[o].output) for o in all_outputs(w)}
            except Exception:  # noqa: BLE001
                disc += 1
                continue
            d = tempfile.mkdtemp(prefix="pf-fidelity-")
            try:
                with runner.quiet():
                    p = build_pipeline(w)
                    res = p.map(build_inputs(w), run_folder=d, executor=tpool if kind == "thread" else ppool,
                                storage=storage, **map_kwargs(w))
                    got = {o: canon(res[o].output) for o in all_outputs(w)}
                    loaded = {o: canon(load_outputs(o, run_folder=d)) for o in all_outputs(w)}
                if got != R0 or loaded != R0:
                    diverged.append({"idx": idx, "kind": kind, "storage": storage})
                counts[kind] += 1
                done += 1
            except Exception as e:  # noqa: BLE001
                diverged.append({"idx": idx, "kind": kind, "storage": storage, "exc": repr(e)[:300]})
            finally:
                shutil.rmtree(d, ignore_errors=True)
    # cache histories against REAL multiprocessing.Manager proxies: the policy models must agree with the
    # implementation exactly as they do under the FakeManager
    cache_cases = cache_bad = 0
    try:
        from engines import c14_caches, common as C

        orig_new_sim = C.new_sim

        def real_manager_sim(*a, **k):
            sim = orig_new_sim(*a, **k)
            sim.fake_managers = False
            return sim

        C.new_sim = real_manager_sim
        i = 0
        while cache_cases < max(10, n // 3) and i < 5000:
            tape = Tape(derive_seed(seed, "fidelity-cache", i))
            i += 1
            case = c14_caches.gen_case(tape, "quick")
            if case["part"] != "A" or not case["config"].get("shared") or case["config"]["cls"] == "simple":
                continue
            with runner.quiet():
                viol, _probes, _sim = c14_caches.run_A(case, Tape(derive_seed(seed, "fidelity-cache-exec", i)))
            cache_cases += 1
            if viol:
                cache_bad += 1
                diverged.append({"cache_case": i, "violation": [viol[0]["oracle"], viol[0]["kind"]]})
    finally:
        C.new_sim = orig_new_sim
    out = {"workloads": done, "discarded": disc, "by_executor": counts, "cache_histories_on_real_managers": cache_cases,
           "diverged": diverged, "wall_s": round(time.time() - t0, 1)}
    print("FIDELITY", json.dumps(out))
    return 2 if diverged else 0


if __name__ == "__main__":
    sys.exit(main(sys.argv[1:]))
