"""Fidelity cross-check (DESIGN 2.7): a sample of generated workloads is executed with the REAL
ThreadPoolExecutor, ProcessPoolExecutor and multiprocessing.Manager (no simulator, no seams) and must
give the results the sequential reference gives.  Observation of uncontrolled executions: never the
source of a VIOLATION line; a disagreement means a stub misrepresents its component (exit 2)."""
from __future__ import annotations

import json
import os
import shutil
import sys
import tempfile
import time
import warnings
from concurrent.futures import ProcessPoolExecutor, ThreadPoolExecutor


def _init_worker():
    """Real pool workers are fresh interpreters: import pipefunc with zarr masked, as everywhere else."""
    from .bootstrap import boot

    boot()


def main(argv):
    n = int(argv[0]) if argv else 40
    seed = int(os.environ.get("VERIF_SEED", "0"))
    from .bootstrap import boot

    boot()
    import multiprocessing as mp

    from . import runner
    from .genpipe import all_outputs, build_inputs, build_pipeline, gen_workload, map_kwargs
    from .tape import Tape, derive_seed
    from .userfuncs import canon

    from pipefunc.map import load_outputs

    t0 = time.time()
    done = disc = 0
    diverged = []
    counts = {"thread": 0, "process": 0}
    ctx = mp.get_context("forkserver")
    warnings.simplefilter("ignore")
    with ProcessPoolExecutor(2, mp_context=ctx, initializer=_init_worker) as ppool, ThreadPoolExecutor(3) as tpool:
        for idx in range(n):
            tape = Tape(derive_seed(seed, "fidelity", idx))
            w = gen_workload(tape, max_funcs=4)
            storage = tape.pick(["file_array", "dict", "shared_memory_dict"], "storage")
            kind = tape.pick(["thread", "thread", "process"], "kind")
            try:
                with runner.quiet():
                    p = build_pipeline(w)
                    ref = p.map(build_inputs(w), parallel=False, storage="dict", **map_kwargs(w))
                R0 = {o: canon(ref[o].output) for o in all_outputs(w)}
            except Exception:  # noqa: BLE001
                disc += 1
                continue
            d = tempfile.mkdtemp(prefix="pf-fidelity-")
            try:
                with runner.quiet():
                    p = build_pipeline(w)
                    res = p.map(build_inputs(w), run_folder=d, executor=tpool if kind == "thread" else ppool,
                                storage=storage, **map_kwargs(w))
                    got = {o: canon(res[o].output) for o in all_outputs(w)}
                    loaded = {o: canon(load_outputs(o, run_folder=d)) for o in all_outputs(w)}
                if got != R0 or loaded != R0:
                    diverged.append({"idx": idx, "kind": kind, "storage": storage})
                counts[kind] += 1
                done += 1
            except Exception as e:  # noqa: BLE001
                diverged.append({"idx": idx, "kind": kind, "storage": storage, "exc": repr(e)[:300]})
            finally:
                shutil.rmtree(d, ignore_errors=True)
    out = {"workloads": done, "discarded": disc, "by_executor": counts, "diverged": diverged, "wall_s": round(time.time() - t0, 1)}
    print("FIDELITY", json.dumps(out))
    return 2 if diverged else 0


if __name__ == "__main__":
    sys.exit(main(sys.argv[1:]))
