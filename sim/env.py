"""The environment a case runs in (part of the case: `case["env"]`, drawn from the workload tape after the case).

Things a program inherits rather than chooses, and that code touching paths, text files or the console can
silently depend on:

  path           name of the directory everything of the case lives in: with glob metacharacters, blanks,
                 braces or non-ASCII letters (a run folder called "scan [T=300K]" is an ordinary thing)
  stdout         encoding of sys.stdout (strict): a C-locale console or a log file opened as latin-1 / ascii
  own_filesystem the directory of the case is a mount point of its own (a scratch disk, /dev/shm, a network share): a
                 rename between it and anything outside - the system's temporary directory, say - fails with EXDEV,
                 as it does between real file systems; shutil.move then copies and deletes
  text_encoding  what open() without `encoding=` means in this process (the locale's preferred encoding), applied
                 by the file-system seam to every text-mode open below the scratch root, reads included
"""
from __future__ import annotations

import io

CURRENT: dict | None = None

ODD_PATHS = ["w [1]", "a*b?c", "sp ace", "ünï-θ", "{x}[!a]", "scan[T=300K]"]


def gen_env(tape):
    env = {}
    if tape.coin(0.12, "env-odd-path"):
        env["path"] = tape.pick(ODD_PATHS, "env-path")
    if tape.coin(0.08, "env-stdout"):
        env["stdout"] = tape.pick(["ascii", "latin-1"], "env-stdout-enc")
    if tape.coin(0.08, "env-text-encoding"):
        env["text_encoding"] = tape.pick(["ascii", "latin-1"], "env-text-enc")
    if tape.coin(0.3, "env-own-filesystem"):
        env["own_filesystem"] = True
    return env or None


def set_env(env):
    global CURRENT
    CURRENT = dict(env) if env else None


def get(key, default=None):
    return (CURRENT or {}).get(key, default)


def stdout_sink():
    """What sys.stdout is during a case: discards the bytes, but encodes strictly in the case's console encoding."""
    enc = get("stdout")
    if enc is None:
        return io.StringIO()
    return io.TextIOWrapper(io.BytesIO(), encoding=enc, errors="strict", write_through=True)


def simplify(case):
    """Smaller environments first (used by the shrinker before the engine's own candidates)."""
    env = case.get("env")
    if not env:
        return
    c = {k: v for k, v in case.items() if k != "env"}
    yield c
    if len(env) > 1:
        for k in env:
            yield dict(c, env={k2: v2 for k2, v2 in env.items() if k2 != k})
