"""Deterministic-simulation kit for pipefunc (see /verif/DESIGN.md section 2)."""
