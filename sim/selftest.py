"""Determinism self-test (DESIGN 2.8): every seed executed twice in different fresh interpreters,
at two worker counts and under another PYTHONHASHSEED; event-log digests are diffed."""
from __future__ import annotations

import json
import os
import subprocess
import sys
import tempfile

from . import runner


def digests_main(argv):
    """check.py selftest --digests <pid> <seed> <start> <count> <out>"""
    pid, seed, start, count, out = argv
    from .bootstrap import boot

    boot()
    eng = runner.engine(pid)
    res = {}
    for idx in range(int(start), int(start) + int(count)):
        with runner.quiet():
            o = runner.run_index(eng, pid, int(seed), idx, "quick")
        res[idx] = None if o.get("discarded") else [o.get("digest"), runner.digest_case(o["case"]),
                                                       sorted(runner.vclass(v) for v in o["violations"])]
    with open(out, "w") as f:
        json.dump(res, f)
    return 0


def _spawn(pid, seed, start, count, hashseed, out):
    env = dict(os.environ, PYTHONHASHSEED=str(hashseed), PYTHONDONTWRITEBYTECODE="1")
    return subprocess.Popen([sys.executable, os.path.join(runner.VERIF, "check.py"), "selftest", "--digests", pid,
                             str(seed), str(start), str(count), out], env=env, cwd=runner.VERIF,
                            stdout=subprocess.DEVNULL, stderr=subprocess.PIPE)


def main(argv):
    if argv and argv[0] == "--digests":
        return digests_main(argv[1:])
    pids = [a for a in argv if a in runner.ENGINES] or [p for p in runner.ENGINES if _has(p)]
    n = int(os.environ.get("SELFTEST_SEEDS", "200"))
    seed = int(os.environ.get("VERIF_SEED", "0"))
    rc = 0
    tmp = tempfile.mkdtemp(prefix="verif-selftest-")
    for pid in pids:
        # A: 16 workers, hashseed 0; B: 1..2 workers (different process layout), hashseed 0; C: hashseed 12345
        jobs = []
        per = (n + 15) // 16
        for w in range(16):
            jobs.append(("A", _spawn(pid, seed, w * per, per, 0, f"{tmp}/{pid}-A{w}.json"), f"{tmp}/{pid}-A{w}.json"))
        half = (n + 1) // 2
        for w in range(2):
            jobs.append(("B", _spawn(pid, seed, w * half, half, 0, f"{tmp}/{pid}-B{w}.json"), f"{tmp}/{pid}-B{w}.json"))
        for w in range(4):
            q = (n + 3) // 4
            jobs.append(("C", _spawn(pid, seed, w * q, q, 12345, f"{tmp}/{pid}-C{w}.json"), f"{tmp}/{pid}-C{w}.json"))
        got = {"A": {}, "B": {}, "C": {}}
        for tag, p, out in jobs:
            _, err = p.communicate(timeout=1800)
            if p.returncode != 0:
                print(f"selftest {pid}: worker failed: {err.decode()[-1500:]}")
                rc = 2
                continue
            got[tag].update(json.load(open(out)))
        bad_ab = [i for i in got["A"] if i in got["B"] and got["A"][i] != got["B"][i]]
        # under another hash seed the generated case must be identical; the execution digest may
        # differ only through SUT set iteration
        bad_case = [i for i in got["A"] if i in got["C"] and (got["A"][i] is None) != (got["C"][i] is None)
                    or (got["A"][i] and got["C"].get(i) and got["A"][i][1] != got["C"][i][1])]
        diff_exec = [i for i in got["A"] if i in got["C"] and got["A"][i] and got["C"][i] and got["A"][i][0] != got["C"][i][0]]
        bad_verdict = [i for i in got["A"] if i in got["C"] and got["A"][i] and got["C"][i] and got["A"][i][2] != got["C"][i][2]]
        print(f"selftest {pid}: seeds={len(got['A'])} same-hashseed digest mismatches={len(bad_ab)} "
              f"case mismatches under other hashseed={len(bad_case)} exec-digest differences under other hashseed="
              f"{len(diff_exec)} verdict differences={len(bad_verdict)}")
        if bad_ab or bad_case:
            print("  first mismatches:", bad_ab[:5], bad_case[:5])
            rc = 2
    return rc


def _has(pid):
    try:
        runner.engine(pid)
        return True
    except ModuleNotFoundError:
        return False
