"""Interpreter bootstrap: import pipefunc from /repo with zarr masked (DESIGN section 1)."""
from __future__ import annotations

import os
import sys

REPO = os.environ.get("VERIF_REPO", "/repo")


def boot():
    if "pipefunc" in sys.modules and getattr(sys.modules["pipefunc"], "_verif_booted", False):
        return sys.modules["pipefunc"]
    if REPO not in sys.path:
        sys.path.insert(0, REPO)
    had = "zarr" in sys.modules
    old = sys.modules.get("zarr")
    sys.modules["zarr"] = None  # `import zarr` -> ImportError, which pipefunc suppresses
    try:
        import pipefunc
        import pipefunc.map
        import pipefunc.map.adaptive  # noqa: F401
        import pipefunc.cache  # noqa: F401
    finally:
        if had:
            sys.modules["zarr"] = old
        else:
            del sys.modules["zarr"]
    root = os.path.realpath(os.path.dirname(os.path.dirname(pipefunc.__file__)))
    if root != os.path.realpath(REPO):
        raise RuntimeError(f"pipefunc imported from {root}, expected {REPO}")
    pipefunc._verif_booted = True
    from . import userstorage

    userstorage.register()
    return pipefunc
