"""SimExecutor: a concurrent.futures.Executor whose every start/completion is decided by the
kernel (DESIGN 2.3).  mode='process' emulates the process boundary with pickle round-trips."""
from __future__ import annotations

import pickle
from concurrent.futures import Executor, Future

from . import context
from .kernel import SimCrash, SimKill, SimWorkerDeath


class SimFuture(Future):
    def __init__(self, kernel):
        super().__init__()
        self._k = kernel

    def result(self, timeout=None):
        # (always through the kernel, also when already done: a caller that polls in a loop must be visible)
        self._k.block_until(self.done, "future.result")
        return super().result(0)

    def exception(self, timeout=None):
        if not self.done():
            self._k.block_until(self.done, "future.exception")
        return super().exception(0)


class _Task:
    __slots__ = ("seq", "fn", "args", "kwargs", "fut", "payload", "payload_exc")


class SimExecutor(Executor):
    _n = 0

    def __init__(self, sim, mode="thread", workers=2, start="fifo", pickle_at="submit", name=None):
        self.sim = sim
        self.k = sim.kernel
        self.mode = mode
        self.workers = workers
        self.start = start
        self.pickle_at = pickle_at
        SimExecutor._n += 1
        self.name = name or f"ex{len(sim.executors)}"
        sim.executors.append(self)
        self.queue: list[_Task] = []
        self.running = 0
        self.submitted = 0
        self.completed = 0
        self.max_running = 0
        self.is_shutdown = False
        self.broken = False

    # -- Executor API ----------------------------------------------------------------
    def submit(self, fn, /, *args, **kwargs):
        if self.broken:
            from concurrent.futures.process import BrokenProcessPool

            raise BrokenProcessPool("A child process terminated abruptly, the process pool is not usable anymore")
        if self.is_shutdown:
            raise RuntimeError("cannot schedule new futures after shutdown")
        cur = context.CURRENT
        if cur is not None and cur.kernel is not self.k:
            # the object survived into a later simulation of the SAME process (module state is reset whenever a new
            # process starts, so nothing else can still hold it): it is the same live pool, continue under this kernel
            self.sim, self.k = cur, cur.kernel
            cur.executors.append(self)
        k = self.k
        k.yield_point(f"{self.name}.submit")
        if self.broken:  # a worker died while this submit was on its way
            from concurrent.futures.process import BrokenProcessPool

            raise BrokenProcessPool("A child process terminated abruptly, the process pool is not usable anymore")
        t = _Task()
        t.seq = self.submitted
        self.submitted += 1
        t.fn, t.args, t.kwargs = fn, args, kwargs
        t.fut = SimFuture(k)
        t.payload = None
        t.payload_exc = None
        if self.mode == "process" and self.pickle_at == "submit":
            self._pickle(t)
        self.queue.append(t)
        proc = (self.name, t.seq) if self.mode == "process" else k.current.proc
        k.spawn(lambda: self._run(t), f"{self.name}.t{t.seq}", proc=proc,
                pred=lambda: self._can_start(t))
        return t.fut

    def shutdown(self, wait=True, *, cancel_futures=False):
        self.is_shutdown = True
        if wait:
            self.k.block_until(lambda: not self.queue and self.running == 0, f"{self.name}.shutdown")

    # -- internals ---------------------------------------------------------------------
    def _pickle(self, t):
        try:
            t.payload = pickle.dumps((t.fn, t.args, t.kwargs))
        except (SimKill, SimCrash):
            raise
        except BaseException as e:  # noqa: BLE001 - the real feeder thread reports it on the future
            t.payload_exc = e

    def _can_start(self, t):
        if self.broken:
            return False  # the pool was torn down when a worker died
        fs = self.sim.fs
        if fs is not None and fs.dead:
            return False  # nobody feeds queued work to the pool after the parent died
        if self.running >= self.workers:
            return False
        return self.start == "any" or self.queue[0] is t

    def _run(self, t):
        k = self.k
        self.queue.remove(t)
        self.running += 1
        self.max_running = max(self.max_running, self.running)
        self.sim.probe("tasks_overlapped", self.running > 1)
        k.sched_note(f"S{self.name}.{t.seq}")
        try:
            k.yield_point(f"{self.name}.t{t.seq}.start")
            if self.mode == "process":
                if t.payload is None and t.payload_exc is None:
                    self._pickle(t)
                if t.payload_exc is not None:
                    raise t.payload_exc
                fn, args, kwargs = pickle.loads(t.payload)
            else:
                fn, args, kwargs = t.fn, t.args, t.kwargs
            res = fn(*args, **kwargs)
            if self.mode == "process":
                res = pickle.loads(pickle.dumps(res))
            k.yield_point(f"{self.name}.t{t.seq}.end")
        except (SimKill, SimCrash):
            self.running -= 1
            raise
        except SimWorkerDeath:
            # the worker process died: like concurrent.futures, the pool is broken - this and every unfinished future
            # fail with BrokenProcessPool and nothing can be submitted any more
            from concurrent.futures.process import BrokenProcessPool

            self.running -= 1
            self.completed += 1
            self.broken = True
            self.sim.probe("worker_process_died")
            k.sched_note(f"X{self.name}.{t.seq}")
            msg = "A process in the process pool was terminated abruptly while the future was running or pending."
            t.fut.set_exception(BrokenProcessPool(msg))
            for q in list(self.queue):
                self.queue.remove(q)
                q.fut.set_exception(BrokenProcessPool(msg))
        except BaseException as e:  # noqa: BLE001
            if self.mode == "process":
                try:
                    e = pickle.loads(pickle.dumps(e))
                except (SimKill, SimCrash):
                    raise
                except BaseException as pe:  # noqa: BLE001
                    e = RuntimeError(f"BrokenProcessPool: exception not picklable: {pe!r}")
            try:
                k.yield_point(f"{self.name}.t{t.seq}.fail")
            except (SimKill, SimCrash):
                self.running -= 1
                raise
            k.sched_note(f"E{self.name}.{t.seq}")
            self.running -= 1
            self.completed += 1
            t.fut.set_exception(e)
        else:
            k.sched_note(f"E{self.name}.{t.seq}")
            self.running -= 1
            self.completed += 1
            if self.broken:
                from concurrent.futures.process import BrokenProcessPool

                t.fut.set_exception(BrokenProcessPool("A process in the process pool was terminated abruptly"))
            else:
                t.fut.set_result(res)
