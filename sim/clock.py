"""SimClock: virtual time behind each pipefunc module's `time` attribute (DESIGN 2.3)."""
from __future__ import annotations

import time as _real_time

from . import context

_MODULES = ("pipefunc.map._run", "pipefunc._pipeline._base", "pipefunc._pipeline._cache", "pipefunc.cache")


class SimClock:
    def __init__(self, sim, resolution=1):
        self.sim = sim
        self.now = 0
        self.resolution = resolution  # coarse clock: readings are floored to a multiple
        self.reads = 0
        sim.clock = self
        install()

    def advance(self, dt):
        self.now += dt

    def read(self):
        self.reads += 1
        r = self.resolution
        return float((self.now // r) * r) if r > 1 else float(self.now)


class _TimeModule:
    """Stands in for the `time` module inside pipefunc modules."""

    def __getattr__(self, name):
        return getattr(_real_time, name)

    @staticmethod
    def _read(real):
        sim = context.CURRENT
        if sim is None or sim.clock is None:
            return real()
        return sim.clock.read()

    def monotonic(self):
        return self._read(_real_time.monotonic)

    def perf_counter(self):
        return self._read(_real_time.perf_counter)

    def time(self):
        return self._read(_real_time.time)


_installed = False


def install():
    global _installed
    if _installed:
        return
    import importlib

    tm = _TimeModule()
    for m in _MODULES:
        mod = importlib.import_module(m)
        if not hasattr(mod, "time"):
            raise RuntimeError(f"{m} has no `time` attribute any more: clock seam lost")
        mod.time = tm
    _installed = True
