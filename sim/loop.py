"""Deterministic asyncio event loop driven by the kernel (DESIGN 2.3).

BaseEventLoop does all the real work (handles, timers, tasks); only the selector is replaced:
`select(timeout)` either lets other simulated threads run (kernel block) or jumps the virtual
clock to the next timer.  No real waiting, no real clock.
"""
from __future__ import annotations

import asyncio


class _Selector:
    def __init__(self, loop):
        self.loop = loop

    def select(self, timeout=None):
        loop = self.loop
        k = loop._k
        if timeout is None:
            # nothing ready, no timers: wait for a worker thread to call_soon_threadsafe
            k.block_until(lambda: bool(loop._ready) or loop._stopping, "loop.idle")
        elif timeout > 0:
            # timers pending: either others make progress or time jumps to the timer
            others = [t for t in k.threads if t is not k.current and k._runnable(t)]
            if others and k.tape.coin(0.5, "loop.wait-or-jump"):
                k.yield_point("loop.wait")
            else:
                loop._vt += timeout
                loop.time_jumps += 1
        else:
            k.yield_point("loop.poll")
        return []

    def close(self):
        pass


class DetLoop(asyncio.BaseEventLoop):
    def __init__(self, kernel):
        super().__init__()
        self._k = kernel
        self._vt = 0.0
        self._selector = _Selector(self)
        self.time_jumps = 0
        self._clock_resolution = 1e-9

    def time(self):
        return self._vt

    def _process_events(self, event_list):
        pass

    def _write_to_self(self):
        pass  # single baton: the loop thread re-checks _ready when it is scheduled again

    def close(self):
        if self.is_closed():
            return
        super().close()


def run_async(kernel, coro_fn):
    """Run `await coro_fn()` on a fresh DetLoop in the current simulated thread."""
    loop = DetLoop(kernel)
    asyncio.set_event_loop(loop)
    try:
        return loop.run_until_complete(coro_fn()), loop
    finally:
        try:
            loop.close()
        finally:
            asyncio.set_event_loop(None)
