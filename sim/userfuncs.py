"""User functions as a free term algebra with a call log (DESIGN 2.4).

Importable module so that std-pickle (process pools) pickles `Fn` instances by value with
the class by reference.
"""
from __future__ import annotations

import collections

import inspect
import zlib

import numpy as np

from . import context

MASKED = "<MASKED>"


class Term:
    """Result of a user function: injective in (function, arguments, output index)."""

    __slots__ = ("f", "args", "idx", "_h")

    def __init__(self, f, args, idx=None):
        self.f = f
        self.args = args
        self.idx = idx
        self._h = hash((f, args, idx))

    def __eq__(self, other):
        return (
            isinstance(other, Term)
            and self._h == other._h
            and self.f == other.f
            and self.idx == other.idx
            and self.args == other.args
        )

    def __ne__(self, other):
        return not self.__eq__(other)

    def __hash__(self):
        return self._h

    def __repr__(self):
        a = ",".join(f"{k}={v!r}" for k, v in self.args)
        i = "" if self.idx is None else f"@{self.idx}"
        return f"{self.f}{i}({a})"

    def __reduce__(self):
        return (Term, (self.f, self.args, self.idx))

    def __lt__(self, other):  # only so that sorted() of mixed containers never raises
        return repr(self) < repr(other)


def canon(v):
    """Canonical, hashable, order-preserving form used by every oracle."""
    if isinstance(v, Term):
        return v
    if v is np.ma.masked:
        return MASKED
    if isinstance(v, np.ma.MaskedArray):
        if v.ndim == 0:
            return MASKED if bool(np.ma.getmaskarray(v)) else canon(v.data.item() if v.dtype != object else v.data[()])
        m = np.ma.getmaskarray(v)
        d = v.data
        return tuple(_canon_arr(d[i], m[i]) for i in range(d.shape[0]))
    if isinstance(v, np.ndarray):
        if v.ndim == 0:
            return canon(v[()])
        return tuple(canon(v[i]) for i in range(v.shape[0]))
    if isinstance(v, np.generic):
        v = v.item()
    if isinstance(v, float) and v != v:
        return "<NaN>"  # nan != nan would make equal values compare unequal
    if isinstance(v, (int, float, str, bytes, bool)) or v is None:
        return v
    if isinstance(v, (list, tuple)):
        return tuple(canon(e) for e in v)
    if isinstance(v, collections.OrderedDict):
        return ("<odict>", tuple((str(k), canon(x)) for k, x in v.items()))  # the order of an OrderedDict is part of its value
    if isinstance(v, dict):
        return ("<dict>", tuple(sorted((str(k), canon(x)) for k, x in v.items())))
    if isinstance(v, ResultLike):
        return ("<ResultLike>", v.term)
    if isinstance(v, DataLike):
        return ("<DataLike>", v.term)
    if isinstance(v, AwaitLike):
        return ("<AwaitLike>", v.term)
    if hasattr(v, "__dataclass_fields__"):
        return f"<{type(v).__name__} {v!r}>"  # e.g. pipefunc Resources handed to the function
    if isinstance(v, (set, frozenset)):
        return ("<set>", tuple(sorted(map(repr, v))))
    return v


def _canon_arr(d, m):
    if isinstance(m, np.ndarray) and m.ndim > 0:
        return tuple(_canon_arr(d[i], m[i]) for i in range(d.shape[0]))
    if bool(m):
        return MASKED
    return canon(d)


def subterms(v, out=None):
    """Immediate function terms occurring in a canonical argument value."""
    if out is None:
        out = []
    if isinstance(v, Term):
        out.append(v)
    elif isinstance(v, tuple):
        for e in v:
            subterms(e, out)
    return out


def contains_masked(v) -> bool:
    if isinstance(v, str):
        return v == MASKED
    if isinstance(v, tuple):
        return any(contains_masked(e) for e in v)
    if isinstance(v, Term):
        return any(contains_masked(a) for _, a in v.args)
    return False


class CallRec:
    __slots__ = ("fn", "args", "start", "end", "thread", "attempt", "raised")

    def __init__(self, fn, args, start, end, thread, attempt, raised):
        self.fn, self.args, self.start, self.end = fn, args, start, end
        self.thread, self.attempt, self.raised = thread, attempt, raised

    def key(self):
        return (self.fn, self.args)

    def __repr__(self):
        return f"<{self.fn}{self.args} [{self.start},{self.end}] {self.thread} a{self.attempt}{' RAISED' if self.raised else ''}>"


# ------------------------------------------------------------------ injected failures
class CustomError(Exception):
    """Module-level picklable custom exception with two arguments."""

    def __init__(self, code, detail):
        super().__init__(code, detail)
        self.code = code
        self.detail = detail


class Exhausted(StopIteration):
    """A user-defined subclass of StopIteration (iterator protocols of the user's own)."""


class Problems(Exception):
    """An exception that is also a (here: empty) collection: `bool(exc)` is False."""

    def __len__(self):
        return len(self.args)


class KwOnlyError(Exception):
    """Keyword-only constructor, empty args, picklable through its own __reduce__."""

    def __init__(self, *, code=0):
        super().__init__()
        self.code = code

    def __reduce__(self):
        return (_make_kwonly, (self.code,), self.__dict__)


def _make_kwonly(code):
    return KwOnlyError(code=code)


EXC_KINDS = ("ValueError", "KeyError", "ZeroDivisionError", "RuntimeError0", "CustomError", "KwOnlyError", "FileNotFoundError",
             "StopIteration", "TimeoutError", "Exhausted", "CancelledError", "Problems")


def make_exc(kind: str):
    if kind == "ValueError":
        return ValueError("m")
    if kind == "KeyError":
        return KeyError("k")
    if kind == "ZeroDivisionError":
        return ZeroDivisionError()
    if kind == "RuntimeError0":
        return RuntimeError()
    if kind == "CustomError":
        return CustomError(7, "detail")
    if kind == "KwOnlyError":
        return KwOnlyError(code=3)
    if kind == "TimeoutError":
        return TimeoutError("upstream service timed out")  # == concurrent.futures.TimeoutError on 3.11+
    if kind == "StopIteration":
        return StopIteration("exhausted")  # e.g. next(it) without default inside the user function
    if kind == "FileNotFoundError":
        return FileNotFoundError(2, "no such thing", "some/file")  # OSError's special constructor
    if kind == "CancelledError":
        import concurrent.futures

        return concurrent.futures.CancelledError("inner job was cancelled")  # an ordinary Exception a user function may raise
    if kind == "Problems":
        return Problems()  # an exception object whose truth value is False (a collection of problems, empty message list)
    if kind == "Exhausted":
        return Exhausted(42)  # a user-defined subclass of StopIteration
    if kind == "WorkerDeath":
        from .kernel import SimWorkerDeath

        return SimWorkerDeath()  # not an exception the user code raises: the worker process is gone
    raise ValueError(kind)


class Fault:
    """Raise `exc_kind` when function `fn` is called with canonical arguments `args`
    (args None = any call of fn).  attempt None = persistent, else only in that attempt."""

    def __init__(self, fn, args, exc_kind, attempt=None, nth=None):
        self.fn, self.args, self.exc_kind, self.attempt, self.nth = fn, args, exc_kind, attempt, nth
        self.fired = 0

    def to_json(self):
        return {"fn": self.fn, "args": repr(self.args), "exc": self.exc_kind, "attempt": self.attempt,
                "nth": self.nth}


class FaultPlan:
    def __init__(self, faults=(), shared_instances=False):
        self.faults = list(faults)
        self.ncalls = {}
        # shared_instances: the user code raises one module-level exception object again and again
        # (`ERR = ValueError("m"); raise ERR`) instead of a fresh instance per failure
        self.shared = {} if shared_instances else None

    def check(self, sim, fn, args):
        n = self.ncalls.get(fn, 0)
        self.ncalls[fn] = n + 1
        for f in self.faults:
            if f.fn != fn:
                continue
            if f.attempt is not None and f.attempt != sim.attempt:
                continue
            if f.nth is not None:
                if f.nth != n:
                    continue
            elif f.args is not None and f.args != args:
                continue
            if f.exc_kind == "WorkerDeath":
                cur = sim.kernel.current if sim.kernel.in_sim_thread() else None
                if cur is None or not isinstance(cur.proc, tuple):
                    continue  # only a pool worker process can die under the parent
            f.fired += 1
            sim.probe("user_fault_fired")
            if self.shared is not None:
                if f.exc_kind not in self.shared:
                    self.shared[f.exc_kind] = make_exc(f.exc_kind)
                return self.shared[f.exc_kind]
            return make_exc(f.exc_kind)
        return None


# ------------------------------------------------------------------ the user function
class Fn:
    """Callable with a synthetic signature returning the term of its invocation.

    kind: 'scalar' -> Term; n_out>1 -> tuple of Terms (name#k); out_shape -> object ndarray
    of Terms carrying their internal index.
    """

    def __init__(self, name, params, defaults=None, n_out=1, out_shape=None, tag="", none_mod=0, seq_out=False,
                 outer=None, dict_out=None, result_like=False, public_name=None, data_like=False, scribbles=()):
        self.scribbles = tuple(scribbles)  # parameters (arrays computed by pipefunc) that the function overwrites in place
        self.data_like = data_like  # wrap the single result in an object that has _data/_mask attributes
        self.public_name = public_name  # what pipefunc sees as __name__ (several functions may share it); logs use `name`
        self.result_like = result_like  # wrap the single result in an object that has a .result() method
        self.outer = dict(outer or {})  # own parameter name -> name in the pipeline (PipeFunc renames); logs use the latter
        self.dict_out = tuple(dict_out) if dict_out else None  # return {output name: value} (custom output_picker)
        self.none_mod = none_mod  # >0: return None (a legitimate value) for about one call in none_mod
        self.seq_out = seq_out  # the single result is itself a sequence (a 2-tuple of terms), not two outputs
        self.name = name
        self.params = tuple(params)
        self.sig_defaults = dict(defaults or {})
        self.n_out = n_out
        self.out_shape = tuple(out_shape) if out_shape is not None else None
        self.tag = tag
        self.__name__ = public_name or name
        self.__qualname__ = public_name or name
        self.__annotations__ = {}
        ps = []
        for p in self.params:
            if p in self.sig_defaults:
                ps.append(inspect.Parameter(p, inspect.Parameter.POSITIONAL_OR_KEYWORD,
                                            default=self.sig_defaults[p]))
            else:
                ps.append(inspect.Parameter(p, inspect.Parameter.POSITIONAL_OR_KEYWORD))
        # parameters with defaults must follow those without
        ps.sort(key=lambda q: q.default is not inspect.Parameter.empty)
        self.__signature__ = inspect.Signature(ps)

    def __reduce__(self):
        return (Fn, (self.name, self.params, self.sig_defaults, self.n_out, self.out_shape, self.tag, self.none_mod,
                     self.seq_out, self.outer, self.dict_out, self.result_like, self.public_name, self.data_like, self.scribbles))

    def _one(self, fname, args):
        if self.out_shape is None:
            return Term(fname, args)
        arr = np.empty(self.out_shape, dtype=object)
        for idx in np.ndindex(*self.out_shape):
            arr[idx] = Term(fname, args, idx)
        if self.data_like == "masked":
            # the user's own masked array along the generated axis (some entries masked): a storage keeps its data
            mask = [zlib.crc32(repr((fname, args, idx)).encode()) % 2 == 0 for idx in np.ndindex(*self.out_shape)]
            return np.ma.masked_array(arr, mask=np.array(mask, dtype=bool).reshape(self.out_shape))
        return arr

    def build(self, args):
        base = self.name + self.tag
        if self.none_mod and self.n_out == 1 and self.out_shape is None \
                and zlib.crc32(repr((base, args)).encode()) % self.none_mod == 0:
            return None
        if self.n_out == 1:
            if self.seq_out == "list" and self.out_shape is None:
                return [Term(base, args, "a"), Term(base, args, "b")]  # a mutable sequence: the caller may edit it later
            if self.seq_out and self.out_shape is None:
                return (Term(base, args, "a"), Term(base, args, "b"))
            if self.result_like and self.out_shape is None:
                return ResultLike(Term(base, args))
            if self.data_like == "await" and self.out_shape is None:
                return AwaitLike(Term(base, args))
            if self.data_like and self.out_shape is None:
                return DataLike(Term(base, args))
            return self._one(base, args)
        vals = tuple(self._one(f"{base}#{k}", args) for k in range(self.n_out))
        if self.dict_out:
            return dict(zip(self.dict_out, vals))
        return vals

    def __call__(self, *a, **kw):
        if a:
            kw.update(zip([p for p in self.__signature__.parameters], a))
        for p, d in self.sig_defaults.items():
            kw.setdefault(p, d)
        args = tuple((self.outer.get(p, p), canon(kw[p])) for p in self.params)
        for p in self.scribbles:
            # a user function that sorts / normalises the array it was given in place: what it received is its own copy to spoil
            v = kw.get(p)
            if isinstance(v, np.ndarray) and v.size and v.flags.writeable:
                try:
                    v.flat[0] = "<scribbled-over-by-a-user-function>" if v.dtype == object else 0
                except Exception:  # noqa: BLE001
                    pass
        sim = context.CURRENT
        if sim is None:  # called outside a simulation (e.g. by an independent reader)
            return self.build(args)
        k = sim.kernel
        name = self.name + self.tag
        start = k.yield_point(f"call:{name}")
        if sim.clock is not None:
            sim.clock.advance(sim.durations[sim.tape.choose(len(sim.durations), "dur")])
        exc = sim.faults.check(sim, self.name, args) if sim.faults is not None else None
        tname = k.current.name if k.in_sim_thread() else "ext"
        if exc is not None:
            end = k.log(f"raise:{name}")
            sim.calls.append(CallRec(name, args, start, end, tname, sim.attempt, True))
            raise exc
        end = k.yield_point(f"ret:{name}")
        sim.calls.append(CallRec(name, args, start, end, tname, sim.attempt, False))
        return self.build(args)


class ResultLike:
    """A user value that happens to have a `.result()` method (a fit result, a job handle...): it is a value, not a
    future - nobody may call `.result()` on it."""

    def __init__(self, term):
        self.term = term

    def result(self):
        return "<someone-called-result()-on-a-user-value>"

    def __eq__(self, other):
        return isinstance(other, ResultLike) and other.term == self.term

    def __hash__(self):
        return hash(("ResultLike", self.term))

    def __repr__(self):
        return f"ResultLike({self.term!r})"

    def __reduce__(self):
        return (ResultLike, (self.term,))


def as_closure(fn):
    """The same user function as a local function that closes over `fn` - what a lambda or a function defined inside
    another function is: the standard pickle cannot serialise it, cloudpickle (by value) can."""
    def call(*a, **kw):
        return fn(*a, **kw)

    call.__name__ = fn.__name__
    call.__qualname__ = f"make.<locals>.{fn.__name__}"
    call.__signature__ = fn.__signature__
    call.__annotations__ = {}
    call.outer = fn.outer
    return call


class AwaitLike:
    """A user value that happens to be awaitable (a handle to remote work, say): a value like any other - nobody may
    await it on the user's behalf."""

    def __init__(self, term):
        self.term = term

    def __await__(self):
        return iter(())  # awaiting it yields None: the value would be lost
        yield  # pragma: no cover

    def __eq__(self, other):
        return isinstance(other, AwaitLike) and other.term == self.term

    def __hash__(self):
        return hash(("AwaitLike", self.term))

    def __repr__(self):
        return f"AwaitLike({self.term!r})"

    def __reduce__(self):
        return (AwaitLike, (self.term,))


class DataLike:
    """A user value with `_data` / `_mask` attributes of its own (a small container class): still just a value - NumPy's
    masked-array machinery must not unwrap it."""

    def __init__(self, term):
        self.term = term
        self._data = [term, "payload"]
        self._mask = False

    def __eq__(self, other):
        return isinstance(other, DataLike) and other.term == self.term

    def __hash__(self):
        return hash(("DataLike", self.term))

    def __repr__(self):
        return f"DataLike({self.term!r})"

    def __reduce__(self):
        return (DataLike, (self.term,))


class ResFn:
    """Picklable `resources=` callable: with resources_scope='map' it sees the WHOLE inputs of the map."""

    def __init__(self, param):
        self.param = param

    def __call__(self, kwargs):
        from pipefunc.resources import Resources

        v = kwargs[self.param]
        try:
            n = len(v)
        except TypeError:
            n = 0
        return Resources(cpus=1 + n)


class Uncopyable:
    """A valid argument value that can be neither deep-copied nor pickled (like a lock, an open file, a generator),
    but compares by token so that separate runs can be compared."""

    def __init__(self, token):
        self.token = token

    def __eq__(self, other):
        return isinstance(other, Uncopyable) and other.token == self.token

    def __hash__(self):
        return hash(("Uncopyable", self.token))

    def __repr__(self):
        return f"Uncopyable({self.token!r})"

    def __deepcopy__(self, memo):
        raise TypeError("cannot copy an Uncopyable")

    def __reduce__(self):
        raise TypeError("cannot pickle an Uncopyable")


def dict_picker(output, name):
    """Module-level (picklable) custom output_picker for functions that return {output name: value}."""
    return output[name]


def term_base(t: Term):
    """(function name, output slot) of a term; 'f#1' -> ('f', 1)."""
    if "#" in t.f:
        b, s = t.f.rsplit("#", 1)
        return b, int(s)
    return t.f, None
