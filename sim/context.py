"""Per-run simulation context: one object ties tape, kernel, seams, logs and probes together."""
from __future__ import annotations

import collections

from .kernel import Kernel
from .tape import Tape

CURRENT = None  # the Sim of the run in progress (one run at a time per interpreter)


def current():
    if CURRENT is None:
        raise RuntimeError("no simulation in progress")
    return CURRENT


class Sim:
    def __init__(self, exec_tape: Tape, *, step_cap=20000, preempt=0.3, log_events=False):
        self.tape = exec_tape
        self.kernel = Kernel(exec_tape, step_cap=step_cap, preempt=preempt, log_events=log_events)
        self.calls: list = []  # CallRec of user-function invocations
        self.faults = None  # FaultPlan for user-function failures
        self.probes = collections.Counter()
        self.executors: list = []
        self.managers: list = []
        self.fs = None
        self.clock = None
        self.attempt = 0  # index of the attempt in a crash/resume history
        self.durations = (0, 1, 1, 2, 5)  # virtual durations a user call may take

    def probe(self, name: str, cond=True):
        if cond:
            self.probes[name] += 1

    def __enter__(self):
        global CURRENT
        if CURRENT is not None:
            raise RuntimeError("nested simulations are not supported")
        CURRENT = self
        return self

    def __exit__(self, *exc):
        global CURRENT
        CURRENT = None
        return False
