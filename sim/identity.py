"""Process/thread identity and wall-clock timestamps behind seams (DESIGN 2.3).

All simulated processes are threads of one interpreter, so `os.getpid()` / `threading.get_ident()` would tell
pipefunc that every "process" is the same one and every worker a different thread - the opposite of a forked
pool, where each worker has its own pid and runs in a main thread with the *same* ident.  Likewise
`datetime.now()` is a real clock.  The pipefunc modules that read them get proxies:

  pipefunc.cache.os / .threading     -> getpid() / get_ident() of the simulated process / thread
  pipefunc._pipefunc.datetime        -> datetime.datetime.now() = a virtual clock that advances one microsecond per
                                        kernel event (strictly increasing, deterministic)
  builtins.hash                      -> str/bytes hashes salted per simulated process (hash randomisation)
  multiprocessing.parent_process     -> None in the simulated main program, an object in simulated pool workers and
                                        in cases that run "as a multiprocessing child"
"""
from __future__ import annotations

import datetime as _real_datetime
import os as _real_os
import threading as _real_threading

from . import context

_installed = False


def _sim_thread():
    sim = context.CURRENT
    if sim is None:
        return None, None
    k = sim.kernel
    if not k.in_sim_thread():
        return sim, None
    return sim, k.current


def sim_pid():
    sim, th = _sim_thread()
    if th is None:
        return _real_os.getpid()
    pids = sim.__dict__.setdefault("pids", {})
    if th.proc not in pids:
        pids[th.proc] = 20000 + len(pids)
    return pids[th.proc]


def sim_ident():
    sim, th = _sim_thread()
    if th is None:
        return _real_threading.get_ident()
    # the first thread seen of a simulated process is its main thread (ident 1, as in every forked worker);
    # further threads of the same process (thread-mode executors) get distinct idents
    mains = sim.__dict__.setdefault("main_threads", {})
    if th.proc not in mains:
        mains[th.proc] = th.id
    return 1 if mains[th.proc] == th.id else 100 + th.id


class _OsProxy:
    def __getattr__(self, name):
        return getattr(_real_os, name)

    @staticmethod
    def getpid():
        return sim_pid()


class _ThreadingProxy:
    def __getattr__(self, name):
        return getattr(_real_threading, name)

    @staticmethod
    def get_ident():
        return sim_ident()


class _DatetimeClass:
    """Stands in for the class datetime.datetime inside pipefunc._pipefunc."""

    def __getattr__(self, name):
        return getattr(_real_datetime.datetime, name)

    def __call__(self, *a, **k):
        return _real_datetime.datetime(*a, **k)

    @staticmethod
    def now(tz=None):
        sim = context.CURRENT
        if sim is None:
            return _real_datetime.datetime.now(tz)
        base = _real_datetime.datetime(2030, 1, 1, tzinfo=tz)
        return base + _real_datetime.timedelta(microseconds=sim.kernel.seq)


class _DatetimeModule:
    datetime = _DatetimeClass()

    def __getattr__(self, name):
        return getattr(_real_datetime, name)


class _FakeParent:
    """What multiprocessing.parent_process() returns inside a child: an object describing the parent."""

    name = "MainProcess"
    pid = 19999

    def is_alive(self):
        return True

    def join(self, timeout=None):
        return None


_FAKE_PARENT = _FakeParent()
_real_parent_process = None


def sim_parent_process():
    """multiprocessing.parent_process(): None in a main program; an object in a multiprocessing child.  Simulated pool
    workers (process-mode executor tasks: proc is a tuple) are children; a whole case can also run "as a child"
    (sim.as_mp_child), which is how a program looks that was itself started by multiprocessing."""
    sim, th = _sim_thread()
    if sim is None:
        return _real_parent_process()
    if getattr(sim, "as_mp_child", False) or (th is not None and isinstance(th.proc, tuple)):
        return _FAKE_PARENT
    return _real_parent_process()


_real_hash = hash


def sim_hash(obj):
    """builtins.hash as code under simulation sees it: the hash of a str/bytes is salted per (simulated) process, like
    CPython's hash randomisation salts it per interpreter.  Only explicit hash(...) calls go through here; dicts and
    sets hash at C level and keep working on the real values."""
    h = _real_hash(obj)
    if type(obj) in (str, bytes):
        sim = context.CURRENT
        salt = getattr(sim, "hash_salt", 0) if sim is not None else 0
        if salt:
            h = (h ^ salt) or 1
    return h


def install():
    global _installed, _real_parent_process
    if _installed:
        return
    import builtins

    builtins.hash = sim_hash
    import multiprocessing
    import multiprocessing.context
    import multiprocessing.process

    _real_parent_process = multiprocessing.process.parent_process
    multiprocessing.process.parent_process = sim_parent_process
    multiprocessing.parent_process = sim_parent_process
    multiprocessing.context.BaseContext.parent_process = staticmethod(sim_parent_process)
    import pipefunc._pipefunc as pf
    import pipefunc.cache as pc

    if hasattr(pc, "os"):
        pc.os = _OsProxy()
    if hasattr(pc, "threading"):
        pc.threading = _ThreadingProxy()
    # temporary names of run-folder files carry pid and thread id too (pipefunc._utils.dump, RunInfo.dump)
    import pipefunc._utils as pu
    import pipefunc.map._run_info as pri

    for mod in (pu, pri):
        if hasattr(mod, "threading"):
            mod.threading = _ThreadingProxy()
            mod.os = _OsProxy()
    if hasattr(pf, "datetime"):
        pf.datetime = _DatetimeModule()
    _installed = True
