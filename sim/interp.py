"""An independent reading of a generated map workload: what `Pipeline.map` must return, computed from the workload
description alone (MapSpec strings, axis sizes, inputs, defaults, bound values) with ~100 lines of index arithmetic
and none of pipefunc's code.

It exists because the reference the engines compare against is a sequential run of the *same tree*: a change that
breaks every configuration alike (shapes, zip/outer pairing, which slice a reduction receives, where a generated axis
goes) is invisible to a relative oracle.  `expected_outputs(w)` returns {output name: canonical value} in the form
`canon(result.output)` has, or raises `Unsupported` for the few workload features it does not model.
"""
from __future__ import annotations

import itertools

import numpy as np

from .genpipe import array_defaults, build_inputs, plain_defaults
from .userfuncs import Fn, canon


class Unsupported(Exception):
    pass


def _parse(ms):
    """'a[i, :], b[j] -> c[i, j], d[i, j]' -> ({'a': ['i', ':'], 'b': ['j']}, ['i', 'j'], ['c', 'd'])"""
    lhs, rhs = ms.split("->")
    ins = {}
    if lhs.strip() != "...":
        for part in lhs.split("]"):
            part = part.strip().lstrip(",").strip()
            if not part:
                continue
            name, idx = part.split("[")
            ins[name.strip()] = [x.strip() for x in idx.split(",")]
    outs, out_axes = [], None
    for part in rhs.split("]"):
        part = part.strip().lstrip(",").strip()
        if not part:
            continue
        name, idx = part.split("[")
        outs.append(name.strip())
        out_axes = [x.strip() for x in idx.split(",")]
    return ins, out_axes, outs


def _fn(fd):
    inner = {p: "in_" + p.replace(".", "_") for p in fd.get("renamed", [])}
    return Fn(fd["name"], [inner.get(p, p) for p in fd["params"]], defaults=fd.get("sig_defaults") or None,
              n_out=len(fd["outputs"]), out_shape=fd.get("out_shape"),
              none_mod=0 if fd.get("out_shape") else fd.get("none_mod", 0),
              seq_out=fd.get("seq_out") if not fd.get("out_shape") else False,
              outer={v: k for k, v in inner.items()}, dict_out=fd["outputs"] if fd.get("dict_out") else None,
              result_like=bool(fd.get("result_like")) and not fd.get("out_shape") and not fd.get("none_mod"),
              data_like=("masked" if fd.get("masked_out") and fd.get("out_shape") else
                         fd.get("data_like") if not fd.get("out_shape") and not fd.get("none_mod") else False))


def _as_array(v):
    """A provided value as an object ndarray (what pipefunc indexes into)."""
    if isinstance(v, np.ndarray):
        return v
    a = np.empty(len(v), dtype=object)
    for i, x in enumerate(v):
        a[i] = x
    return a


def _call(fn, fd, kwargs):
    """The value one invocation returns, per output name."""
    args = tuple((p, canon(kwargs[p])) for p in fd["params"])
    r = fn.build(args)
    outs = fd["outputs"]
    if len(outs) == 1:
        return {outs[0]: r}
    if isinstance(r, dict):
        return {o: r[o] for o in outs}
    return dict(zip(outs, r))


def expected_outputs(w):
    values = dict(build_inputs(w))
    for fd in w["functions"]:
        for k, v in {**plain_defaults(fd), **array_defaults(w, fd), **(fd.get("sig_defaults") or {})}.items():
            if k not in values:
                values[k] = v
    result = {}
    for fd in w["functions"]:
        fn = _fn(fd)
        base = {}
        for p in fd["params"]:
            if p in (fd.get("bound") or {}):
                base[p] = fd["bound"][p]
            elif p in values:
                base[p] = values[p]
            else:
                raise Unsupported(f"no value for {p}")
        ms = fd.get("mapspec")
        if not ms:
            for o, v in _call(fn, fd, base).items():
                values[o] = result[o] = v
            continue
        ins, out_axes, outs = _parse(ms)
        if outs != list(fd["outputs"]):
            raise Unsupported("output order")
        in_axes = [a for spec in ins.values() for a in spec if a != ":"]
        ext_axes = [a for a in out_axes if a in in_axes]
        int_axes = [a for a in out_axes if a not in in_axes]
        if int_axes and len(int_axes) != len(fd.get("out_shape") or []):
            raise Unsupported("internal axes")
        sizes = {a: w["indices"][a] for a in ext_axes}
        int_shape = tuple(fd.get("out_shape") or ())
        full_shape = tuple(sizes[a] if a in sizes else int_shape[int_axes.index(a)] for a in out_axes)
        arrays = {o: np.empty(full_shape, dtype=object) for o in outs}
        srcs = {name: _as_array(base[name]) for name in ins}
        for combo in itertools.product(*(range(sizes[a]) for a in ext_axes)):
            at = dict(zip(ext_axes, combo))
            kw = dict(base)
            for name, spec in ins.items():
                key = tuple(slice(None) if a == ":" else at[a] for a in spec)
                kw[name] = srcs[name][key]
            for o, v in _call(fn, fd, kw).items():
                if int_axes:
                    v = np.ma.getdata(v) if isinstance(v, np.ma.MaskedArray) else v  # a storage keeps the data of a masked value
                    v = np.asarray(v, dtype=object) if not isinstance(v, np.ndarray) else v
                    for iidx in np.ndindex(*int_shape):
                        full = tuple(at[a] if a in at else iidx[int_axes.index(a)] for a in out_axes)
                        arrays[o][full] = v[iidx]
                else:
                    arrays[o][tuple(at[a] for a in out_axes)] = v
        for o in outs:
            values[o] = result[o] = arrays[o]
    return {o: canon(v) for o, v in result.items()}
